"""Runtime monitors attached to the real code: contracts (icontract when importable, an equivalent plain
wrapper otherwise), a counting/budgeted reader, an interpreter-level step clock and handler coverage."""
import io
import sys

from vlib import wire

try:
    import icontract
    HAVE_ICONTRACT = True
except Exception:  # pragma: no cover - fallback documented in DESIGN.md
    icontract = None
    HAVE_ICONTRACT = False


class ContractLog:
    """Conditions record and return True (they never abort what they observe)."""

    def __init__(self):
        self.evaluations = 0
        self.failures = []

    def fail(self, key, what, case=None):
        if len(self.failures) < 20:
            self.failures.append((key, what, case))


def _post_wrapper(func, post):
    """Fallback when icontract is missing: same observable behaviour as icontract.ensure(record-and-True)."""
    def wrapper(*a, **kw):
        result = func(*a, **kw)
        post(*a, result=result, **kw)
        return result
    wrapper.__wrapped__ = func
    wrapper.__name__ = getattr(func, '__name__', 'wrapped')
    return wrapper


def check_event_against_record(kd_buf, result):
    """The C01 oracle on one (input, output) pair; returns None or a (key, what) pair."""
    try:
        got = wire.event_tuple(result)
    except Exception as e:  # missing attribute etc.
        return ('c01-shape', f'decoded object lacks the event fields: {e!r}')
    exp = wire.ref_tuple(bytes(kd_buf))
    if got != exp:
        bad = [f for f, g, x in zip(wire.REF_FIELDS, got, exp) if g != x]
        return ('c01-field-' + '+'.join(bad), f'fields {bad} differ: got {got!r} expected {exp!r}')
    if type(result.func_qualifier) is not int or not 0 <= result.func_qualifier <= 3:
        return ('c01-qualifier-range', f'qualifier {result.func_qualifier!r}')
    if (result.eventid | result.func_qualifier) != result.debugid:
        return ('c01-reassemble', 'eventid|qualifier != debugid')
    rebuilt = (result.timestamp.to_bytes(8, 'little') + result.data + result.tid.to_bytes(8, 'little')
               + (result.eventid | result.func_qualifier).to_bytes(4, 'little'))
    if rebuilt != bytes(kd_buf)[:52]:
        return ('c01-rebuild', 'first 52 bytes cannot be rebuilt from the event')
    if result.values != tuple(int.from_bytes(result.data[i:i + 8], 'little') for i in (0, 8, 16, 24)):
        return ('c01-values', 'values are not the little-endian words of data')
    return None


def attach_from_kd_buf_contract(log: ContractLog):
    """Post-condition on the real from_kd_buf, rebinding both the defining module and the early-bound
    reference in kd_buf_parser.  Returns an undo function."""
    import pykdebugparser.kevent as kevent
    import pykdebugparser.kd_buf_parser as kbp
    original = kevent.from_kd_buf

    def from_kd_buf_matches_record(kd_buf, result):
        log.evaluations += 1
        if len(kd_buf) == 64:
            bad = check_event_against_record(kd_buf, result)
            if bad:
                log.fail(bad[0], bad[1], {'record': bytes(kd_buf)})
        return True

    import inspect
    try:
        first = next(iter(inspect.signature(original).parameters))
    except (TypeError, ValueError, StopIteration):
        first = None
    # (icontract binds condition arguments by NAME: when the decoder's parameter is not called kd_buf the plain positional
    # wrapper is used, so that the monitor itself never raises - the keyword call is judged by the check, not here)
    if HAVE_ICONTRACT and first == 'kd_buf':
        wrapped = icontract.ensure(from_kd_buf_matches_record, error=AssertionError)(original)
    else:
        wrapped = _post_wrapper(original, from_kd_buf_matches_record)
    kevent.from_kd_buf = wrapped
    old_kbp = kbp.from_kd_buf
    kbp.from_kd_buf = wrapped

    def undo():
        kevent.from_kd_buf = original
        kbp.from_kd_buf = old_kbp
    return undo


# ---------------------------------------------------------------------------------------------
# instrumented I/O and logical clocks
# ---------------------------------------------------------------------------------------------

class ReadBudgetExceeded(Exception):
    pass


class StepBudgetExceeded(Exception):
    pass


class CountingReader(io.BytesIO):
    """BytesIO that counts reads/bytes/seeks and raises beyond a budget (termination on a logical measure)."""

    def __init__(self, data, budget_calls=None, edges=()):
        super().__init__(data)
        self.edges = sorted(edges)      # piece edges: a read never crosses one (data that arrives in pieces)
        self.n_reads = 0
        self.n_bytes = 0
        self.n_seeks = 0
        self.n_empty = 0
        self.size = len(data)
        self.budget_calls = budget_calls if budget_calls is not None else 20 * len(data) + 10000

    def read(self, n=-1):
        self.n_reads += 1
        if self.n_reads > self.budget_calls:
            raise ReadBudgetExceeded(f'{self.n_reads} read calls on a {self.size}-byte stream')
        if self.edges:
            pos = self.tell()
            nxt = next((e for e in self.edges if e > pos), None)
            if nxt is not None and (n is None or n < 0 or pos + n > nxt):
                n = nxt - pos
        b = super().read(n)
        self.n_bytes += len(b)
        if not b:
            self.n_empty += 1
        return b

    def seek(self, *a):
        self.n_seeks += 1
        return super().seek(*a)


class StepClock:
    """sys.monitoring LINE events inside pykdebugparser/* as a logical clock; raises beyond the budget."""
    TOOL = 3

    def __init__(self, budget):
        self.budget = budget
        self.steps = 0
        self.active = False

    def __enter__(self):
        mon = sys.monitoring
        try:
            mon.use_tool_id(self.TOOL, 'verif-stepclock')
        except ValueError:
            mon.free_tool_id(self.TOOL)
            mon.use_tool_id(self.TOOL, 'verif-stepclock')

        def on_line(code, line):
            if '/pykdebugparser/' not in code.co_filename:
                return mon.DISABLE
            self.steps += 1
            if self.steps > self.budget:
                raise StepBudgetExceeded(f'{self.steps} interpreter lines inside pykdebugparser')
            return None
        mon.register_callback(self.TOOL, mon.events.LINE, on_line)
        mon.set_events(self.TOOL, mon.events.LINE)
        mon.restart_events()
        self.active = True
        return self

    def __exit__(self, *exc):
        mon = sys.monitoring
        mon.set_events(self.TOOL, 0)
        mon.register_callback(self.TOOL, mon.events.LINE, None)
        mon.free_tool_id(self.TOOL)
        self.active = False
        return False


class Aborted(BaseException):
    """What an interrupted request looks like from the inside: an exception that does not come from the data (Ctrl-C, a
    timeout raised by a signal handler, MemoryError) arriving at an arbitrary line."""


class AbortAt(StepClock):
    """Source-free failpoint: raises Aborted at the k-th interpreter line executed inside pykdebugparser/*.  `fired` tells
    whether the line was reached."""

    def __init__(self, k):
        super().__init__(budget=k - 1)
        self.fired = False

    def __enter__(self):
        mon = sys.monitoring
        try:
            mon.use_tool_id(self.TOOL, 'verif-abort')
        except ValueError:
            mon.free_tool_id(self.TOOL)
            mon.use_tool_id(self.TOOL, 'verif-abort')

        def on_line(code, line):
            if '/pykdebugparser/' not in code.co_filename:
                return mon.DISABLE
            self.steps += 1
            if self.steps > self.budget and not self.fired:
                self.fired = True
                raise Aborted(f'aborted at line {self.steps} inside pykdebugparser ({code.co_name}:{line})')
            return None
        mon.register_callback(self.TOOL, mon.events.LINE, on_line)
        mon.set_events(self.TOOL, mon.events.LINE)
        mon.restart_events()
        self.active = True
        return self


class HandlerCoverage:
    """sys.monitoring PY_START on code objects of pykdebugparser/trace_handlers/*: which decoder functions
    were really entered."""
    TOOL = 4

    def __init__(self):
        self.entered = set()

    def __enter__(self):
        mon = sys.monitoring
        try:
            mon.use_tool_id(self.TOOL, 'verif-handlercov')
        except ValueError:
            mon.free_tool_id(self.TOOL)
            mon.use_tool_id(self.TOOL, 'verif-handlercov')

        def on_start(code, offset):
            if '/pykdebugparser/trace_handlers/' in code.co_filename:
                self.entered.add((code.co_filename.rsplit('/', 1)[-1], code.co_name))
            return mon.DISABLE
        mon.register_callback(self.TOOL, mon.events.PY_START, on_start)
        mon.set_events(self.TOOL, mon.events.PY_START)
        mon.restart_events()
        return self

    def __exit__(self, *exc):
        mon = sys.monitoring
        mon.set_events(self.TOOL, 0)
        mon.register_callback(self.TOOL, mon.events.PY_START, None)
        mon.free_tool_id(self.TOOL)
        return False
