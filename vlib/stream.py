"""Sequential-composition monitor: a real dump is decoded by ONE parser from its first to its last event, so the
rendering of a window must not depend on the windows decoded before it (caches, leftovers, counters).  Cases that
were rendered one by one on fresh parsers are fed again as one long stream (same thread, and pairwise interleaved
on two threads) through a single parser and every rendering is compared with the stand-alone one."""
from vlib import core, ev, histories as H


def run_stream(res, key_prefix, cases, rng, label):
    """cases: [(abstract event sequence, expected list of renderings, description)]."""
    if not cases:
        return
    order = list(range(len(cases)))
    rng.shuffle(order)
    for mode in ('one_thread', 'two_threads'):
        parser = ev.new_parser()
        ts = 5000
        expected_by_first_ts = {}
        items = []
        if mode == 'one_thread':
            for i in order:
                seq, texts, desc = cases[i]
                items.append([(6, a) for a in seq])
        else:
            # pairs of cases interleaved event by event on two threads
            for a, b in zip(order[0::2], order[1::2]):
                sa, sb = cases[a][0], cases[b][0]
                merged = []
                for k in range(max(len(sa), len(sb))):
                    if k < len(sa):
                        merged.append((6, sa[k]))
                    if k < len(sb):
                        merged.append((7, sb[k]))
                items.append(merged)
        got = {}
        owner = {}
        try:
            for gi, group in enumerate(items):
                events = H.materialize(group, t0=ts)
                ts = events[-1].timestamp + 7
                for e in events:
                    t = parser.feed(e)
                    if t is not None:
                        got.setdefault((gi, t.ktraces[0].tid), []).append(str(t))
        except Exception as x:
            res.violation(f'{key_prefix}-stream-raises-{core.exc_name(x)}', f'{label}: feeding {len(cases)} windows through one '
                          f'parser raised {x!r} at {core.short_tb(x)}')
            return
        res.count(f'stream_windows_{mode}', len(order))
        if mode == 'one_thread':
            pairs = [((gi, 6), cases[i]) for gi, i in enumerate(order)]
        else:
            pairs = []
            for gi, (a, b) in enumerate(zip(order[0::2], order[1::2])):
                pairs.append(((gi, 6), cases[a]))
                pairs.append(((gi, 7), cases[b]))
        for k, (seq, texts, desc) in pairs:
            if got.get(k, []) != texts:
                res.violation(f'{key_prefix}-depends-on-earlier-windows', f'{label} ({mode}): {desc}: rendered '
                              f'{got.get(k, [])} inside a long stream on one parser, {texts} on a fresh parser',
                              {'description': desc, 'mode': mode})
                return
