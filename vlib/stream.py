"""Sequential-composition monitor: a real dump is decoded by ONE parser from its first to its last event, so the
rendering of a window must not depend on the windows decoded before it (caches, leftovers, counters).  Cases that
were rendered one by one on fresh parsers are fed again as one long stream (same thread, and pairwise interleaved
on two threads) through a single parser and every rendering is compared with the stand-alone one."""
import io

from vlib import core, ev, wire, gen, histories as H


def run_stream(res, key_prefix, cases, rng, label):
    """cases: [(abstract event sequence, expected list of renderings, description)]."""
    if not cases:
        return
    order = list(range(len(cases)))
    rng.shuffle(order)
    for mode in ('one_thread', 'two_threads'):
        parser = ev.new_parser()
        ts = 5000
        expected_by_first_ts = {}
        items = []
        if mode == 'one_thread':
            for i in order:
                seq, texts, desc = cases[i]
                items.append([(6, a) for a in seq])
        else:
            # pairs of cases interleaved event by event on two threads
            for a, b in zip(order[0::2], order[1::2]):
                sa, sb = cases[a][0], cases[b][0]
                merged = []
                for k in range(max(len(sa), len(sb))):
                    if k < len(sa):
                        merged.append((6, sa[k]))
                    if k < len(sb):
                        merged.append((7, sb[k]))
                items.append(merged)
        got = {}
        owner = {}
        try:
            for gi, group in enumerate(items):
                events = H.materialize(group, t0=ts)
                ts = events[-1].timestamp + 7
                for e in events:
                    t = parser.feed(e)
                    if t is not None:
                        got.setdefault((gi, t.ktraces[0].tid), []).append(str(t))
        except Exception as x:
            res.violation(f'{key_prefix}-stream-raises-{core.exc_name(x)}', f'{label}: feeding {len(cases)} windows through one '
                          f'parser raised {x!r} at {core.short_tb(x)}')
            return
        res.count(f'stream_windows_{mode}', len(order))
        if mode == 'one_thread':
            pairs = [((gi, 6), cases[i]) for gi, i in enumerate(order)]
        else:
            pairs = []
            for gi, (a, b) in enumerate(zip(order[0::2], order[1::2])):
                pairs.append(((gi, 6), cases[a]))
                pairs.append(((gi, 7), cases[b]))
        for k, (seq, texts, desc) in pairs:
            if got.get(k, []) != texts:
                res.violation(f'{key_prefix}-depends-on-earlier-windows', f'{label} ({mode}): {desc}: rendered '
                              f'{got.get(k, [])} inside a long stream on one parser, {texts} on a fresh parser',
                              {'description': desc, 'mode': mode})
                return


def run_files(res, key_prefix, cases, rng, label, limit=600):
    """The same windows through the public front end: written into a version-2 and a version-3 dump (events split
    over several chunks) and decoded by PyKdebugParser.traces().  In every other window all records carry the SAME
    timestamp (the time base is coarse; a START and its END may share a tick) - file order, not time, is the order."""
    from pykdebugparser.pykdebugparser import PyKdebugParser
    if not cases:
        return
    order = list(range(len(cases)))
    rng.shuffle(order)
    order = order[:limit]
    events, spans = [], []
    ts = 5000
    for gi, i in enumerate(order):
        seq = cases[i][0]
        evs = H.materialize([(6, a) for a in seq], t0=ts, step=0 if gi % 2 else 7)
        spans.append((ts, evs[-1].timestamp))
        events += evs
        ts = evs[-1].timestamp + 7
    records = gen.events_to_records(events)
    entries = [(6, 100, b'proc0', b'')]
    files = {'v2': wire.v2_file(entries, 8, records),
             'v3': wire.V3Spec(entries=entries, chunks=gen.split_chunks(rng, records, rng.choice((1, 2, 5, 9)))).build()}
    for kind, data in files.items():
        try:
            traces = list(PyKdebugParser().traces(io.BytesIO(data)))
        except Exception as x:
            res.violation(f'{key_prefix}-file-raises-{core.exc_name(x)}', f'{label}: {len(order)} windows in a {kind} dump: '
                          f'{x!r} at {core.short_tb(x)}', {'file': data})
            return
        got = {}
        k = 0
        for t in traces:
            t0 = t.ktraces[0].timestamp
            while k < len(spans) - 1 and t0 > spans[k][1]:
                k += 1
            got.setdefault(k, []).append(str(t))
        res.count(f'file_windows_{kind}', len(order))
        for gi, i in enumerate(order):
            seq, texts, desc = cases[i]
            if got.get(gi, []) != texts:
                res.violation(f'{key_prefix}-differs-through-{kind}-dump', f'{label}: {desc}: rendered {got.get(gi, [])} when '
                              f'the records are read from a {kind} dump by the front end'
                              + (' (all records of the window share one timestamp)' if gi % 2 else '')
                              + f', {texts} when fed to the trace parser directly', {'description': desc, 'file': data})
                return


def traces_via_file(events, kind, rng):
    """The events written into a dump of the given container version and decoded by the public front end."""
    from pykdebugparser.pykdebugparser import PyKdebugParser
    records = gen.events_to_records(events)
    entries = gen.threadmap_for(events)
    if kind == 'v2':
        data = wire.v2_file(entries, 8, records)
    else:
        data = wire.V3Spec(entries=entries, chunks=gen.split_chunks(rng, records, rng.choice((1, 2, 3)))).build()
    return data, list(PyKdebugParser().traces(io.BytesIO(data)))
