"""Sequential-composition monitor: a real dump is decoded by ONE parser from its first to its last event, so the
rendering of a window must not depend on the windows decoded before it (caches, leftovers, counters).  Cases that
were rendered one by one on fresh parsers are fed again as one long stream (same thread, and pairwise interleaved
on two threads) through a single parser and every rendering is compared with the stand-alone one."""
import copy
import pickle
import io
import os

from vlib import core, ev, wire, gen, histories as H

_TERMINAL_DONE = []


def scribble(obj, depth=0):
    """What a consumer may do with a result it was handed: edit it in place (drop entries of its lists, clear its dicts,
    overwrite its fields).  Results belong to the caller; nothing decoded later may read them back."""
    import dataclasses
    if depth > 3 or obj is None:
        return
    if isinstance(obj, list):
        for x in obj[:4]:
            scribble(x, depth + 1)
        obj.clear()
        return
    if isinstance(obj, dict):
        obj.clear()
        return
    if dataclasses.is_dataclass(obj) and not isinstance(obj, type):
        for f in dataclasses.fields(obj):
            v = getattr(obj, f.name, None)
            if isinstance(v, (list, dict)) or (dataclasses.is_dataclass(v) and not isinstance(v, type)):
                scribble(v, depth + 1)
            try:
                setattr(obj, f.name, None)
            except Exception:          # frozen results cannot be overwritten: nothing to do
                pass


def run_stream(res, key_prefix, cases, rng, label):
    """cases: [(abstract event sequence, expected list of renderings, description)]."""
    if not cases:
        return
    order = list(range(len(cases)))
    rng.shuffle(order)
    import copy
    for mi, mode in enumerate(('one_thread', 'two_threads', 'checkpointed', 'fed_in_pieces', 'handed_over', 'two_feeders')):
        # (every other mode the parser KNOWS which process its two threads belong to - one process: state a decoder keeps
        # "per process" is only reachable then)
        parser = ev.new_parser(threads_pids={6: 77, 7: 77}, pids_names={77: 'proc'}) if (mi + len(cases)) % 2 else ev.new_parser()
        ts = 5000
        expected_by_first_ts = {}
        items = []
        if mode in ('one_thread', 'checkpointed', 'fed_in_pieces', 'handed_over'):
            for i in order[:len(order) if mode == 'one_thread' else 300]:
                seq, texts, desc = cases[i]
                items.append([(6, a) for a in seq])
        else:
            # pairs of cases interleaved event by event on two threads
            for a, b in zip(order[0::2], order[1::2]):
                sa, sb = cases[a][0], cases[b][0]
                merged = []
                for k in range(max(len(sa), len(sb))):
                    if k < len(sa):
                        merged.append((6, sa[k]))
                    if k < len(sb):
                        merged.append((7, sb[k]))
                items.append(merged)
        got = {}
        owner = {}
        try:
            for gi, group in enumerate(items):
                events = H.materialize(group, t0=ts)
                ts = max(e.timestamp for e in events) + 100
                if mode == 'checkpointed' and gi % 2 == 0 and len(events) > 1:
                    # a checkpoint of the decode (copy.deepcopy of the parser) taken in the middle of the window; the copy
                    # is resumed with the rest of the records BEFORE the original is: two independent objects each
                    # deliver the window
                    cut = rng.randrange(1, len(events))
                    for e in events[:cut]:
                        t = parser.feed(e)
                        if t is not None:
                            got.setdefault((gi, t.ktraces[0].tid), []).append(str(t))
                    # (the checkpoint is a deep copy, or a pickle round trip - a checkpoint file, a parser handed to a
                    # worker process: equal strings, ints and tuples come back as OTHER objects)
                    how = 'copy.deepcopy' if (gi // 2) % 2 == 0 else 'pickle round trip'
                    try:
                        clone = copy.deepcopy(parser) if how == 'copy.deepcopy' else pickle.loads(pickle.dumps(parser))
                    except Exception as x:
                        res.notes['parser_checkpoints'] = f'{how} of the parser raises {type(x).__name__}: not exercised'
                        clone = None
                    if clone is not None:
                        from_clone = [str(t) for t in (clone.feed(e) for e in events[cut:]) if t is not None]
                        res.count('parser_checkpoints_resumed')
                        res.count('parser_checkpoints_by_' + how.replace(' ', '_').replace('.', '_'))
                        from_original = []
                        for e in events[cut:]:
                            t = parser.feed(e)
                            if t is not None:
                                got.setdefault((gi, t.ktraces[0].tid), []).append(str(t))
                                from_original.append(str(t))
                        if from_clone != from_original:
                            res.violation(f'{key_prefix}-checkpoint-resumes-differently', f'{label}: a checkpoint of the parser '
                                          f'({how}) taken after record {cut} of a window, resumed with the rest of the records, '
                                          f'renders {from_clone}; the original renders {from_original}', {})
                            return
                        continue
                    events = events[cut:]
                if mode == 'handed_over':
                    # the stream is advanced by one OS thread, then - with the window still open - by another (a consumer
                    # that hands its half-read generator to a worker): who feeds a record is not part of the record
                    import threading
                    cut = rng.randrange(1, len(events)) if len(events) > 1 else 0

                    def rest(part=events[cut:], gi=gi):
                        try:
                            for e in part:
                                t = parser.feed(e)
                                if t is not None:
                                    got.setdefault((gi, t.ktraces[0].tid), []).append(str(t))
                        except Exception as x:                      # noqa
                            got.setdefault((gi, 6), []).append(f'<raised {x!r}>')
                    for e in events[:cut]:
                        t = parser.feed(e)
                        if t is not None:
                            got.setdefault((gi, t.ktraces[0].tid), []).append(str(t))
                    worker = threading.Thread(target=rest, daemon=True)
                    worker.start()
                    worker.join(timeout=60)
                    continue
                if mode == 'two_feeders':
                    # ONE parser fed by two live feed_generator()s, one per CPU buffer, whose results are taken in turns
                    # (heapq.merge / zip over per-CPU generators): the group's records alternate between the buffers
                    import itertools
                    bufs = [iter(events[0::2]), iter(events[1::2])]
                    consumed = []
                    shared = ev.new_parser()
                    feeders = [shared.feed_generator((consumed.append(e) or e) for e in b) for b in bufs]
                    live = [True, True]
                    for k in itertools.cycle((0, 1)):
                        if not any(live):
                            break
                        if live[k]:
                            try:
                                t = next(feeders[k])
                                got.setdefault((gi, t.ktraces[0].tid), []).append(str(t))
                            except StopIteration:
                                live[k] = False
                    # what a single feeder makes of the order in which the records were really consumed
                    ref = ev.new_parser()
                    want = [str(t) for t in (ref.feed(e) for e in consumed) if t is not None]
                    if sorted(got.get((gi, 6), []) + got.get((gi, 7), [])) != sorted(want):
                        res.violation(f'{key_prefix}-depends-on-the-number-of-feeders', f'{label}: one parser fed by two live '
                                      f'feed_generator()s taken in turns rendered {got.get((gi, 6), []) + got.get((gi, 7), [])}, a single '
                                      f'feeder given the records in the order they were consumed renders {want}', {})
                        return
                    got.pop((gi, 6), None)
                    got.pop((gi, 7), None)
                    continue
                if mode == 'fed_in_pieces':
                    # the generator interface, the window handed over in several feed_generator() calls (also cut in
                    # the middle of the window; some pieces are empty)
                    cuts = sorted(rng.randrange(len(events) + 1) for _ in range(rng.choice((1, 2, 3))))
                    prev = 0
                    for c in cuts + [len(events)]:
                        for t in parser.feed_generator(iter(events[prev:c])):
                            got.setdefault((gi, t.ktraces[0].tid), []).append(str(t))
                        prev = c
                    continue
                for e in events:
                    t = parser.feed(e)
                    if t is not None:
                        got.setdefault((gi, t.ktraces[0].tid), []).append(str(t))
                        if mode == 'two_threads':
                            scribble(t)         # the consumer edits what it was given (results belong to the caller)
        except Exception as x:
            res.violation(f'{key_prefix}-stream-raises-{core.exc_name(x)}', f'{label}: feeding {len(cases)} windows through one '
                          f'parser raised {x!r} at {core.short_tb(x)}')
            return
        res.count(f'stream_windows_{mode}', len(order))
        if mode in ('one_thread', 'checkpointed', 'fed_in_pieces', 'handed_over'):
            pairs = [((gi, 6), cases[i]) for gi, i in enumerate(order[:len(items)])]
        elif mode == 'two_feeders':
            pairs = []              # (judged group by group above)
        else:
            pairs = []
            for gi, (a, b) in enumerate(zip(order[0::2], order[1::2])):
                pairs.append(((gi, 6), cases[a]))
                pairs.append(((gi, 7), cases[b]))
        for k, (seq, texts, desc) in pairs:
            if got.get(k, []) != texts:
                res.violation(f'{key_prefix}-depends-on-earlier-windows', f'{label} ({mode}): {desc}: rendered '
                              f'{got.get(k, [])} inside a long stream on one parser, {texts} on a fresh parser',
                              {'description': desc, 'mode': mode})
                return


def front_end(rng):
    """A front-end object whose presentation settings (time base, wall clock, zone, columns, colour) are set at random -
    also to extreme values: they say how a line is printed, never what is decoded."""
    from datetime import timezone, timedelta
    from pykdebugparser.pykdebugparser import PyKdebugParser
    p = PyKdebugParser()
    if rng.random() < 0.6:
        p.numer, p.denom = rng.choice(((125, 3), (1, 1), (1, 1 << 31), ((1 << 32) - 1, 1), (1 << 40, 3), (3, 125)))
        p.mach_absolute_time = rng.choice((0, 1, 0x100000000, 1 << 62))
        p.usecs_since_epoch = rng.choice((0, 1600000000 * 10 ** 6))
        if rng.random() < 0.7:
            p.timezone = timezone(timedelta(minutes=rng.choice((0, -450, 330, 840))))
    p.color = rng.random() < 0.5
    for sw in ('show_timestamp', 'show_tid', 'show_process'):
        if hasattr(p, sw):
            setattr(p, sw, rng.random() < 0.5)
    return p


def run_files(res, key_prefix, cases, rng, label, limit=600):
    """The same windows through the public front end: written into a version-2 and a version-3 dump (events split
    over several chunks) and decoded by PyKdebugParser.traces().  In every other window all records carry the SAME
    timestamp (the time base is coarse; a START and its END may share a tick) - file order, not time, is the order."""
    from pykdebugparser.pykdebugparser import PyKdebugParser
    if not cases:
        return
    order = list(range(len(cases)))
    rng.shuffle(order)
    order = order[:limit]
    events, spans = [], []
    ts = 5000
    for gi, i in enumerate(order):
        seq = cases[i][0]
        evs = H.materialize([(6, a) for a in seq], t0=ts, step=0 if gi % 2 else 7)
        spans.append((min(e.timestamp for e in evs), max(e.timestamp for e in evs)))
        events += evs
        # (a jittered clock stamps records up to 30 ticks early); now and then the capture is silent for hours
        ts = spans[-1][1] + (100 if gi % 7 else rng.choice((10 ** 11, 10 ** 13, 1 << 40)))
    records = gen.events_to_records(events)
    entries = [(6, 100, b'proc0', b'')]
    files = {'v2': wire.v2_file(entries, 8, records),
             'v3': wire.V3Spec(entries=entries, chunks=gen.split_chunks(rng, records, rng.choice((1, 2, 5, 9)))).build()}
    for kind, data in files.items():
        try:
            traces = list(front_end(rng).traces(wire.stream(data)))
        except Exception as x:
            res.violation(f'{key_prefix}-file-raises-{core.exc_name(x)}', f'{label}: {len(order)} windows in a {kind} dump: '
                          f'{x!r} at {core.short_tb(x)}', {'file': data})
            return
        # the same request consumed lazily, every trace dropped before the next one is asked for (the records die and
        # their memory is reused while the parse goes on) - what is printed must not depend on what the caller keeps
        lazy = []
        try:
            for t in front_end(rng).traces(wire.stream(data)):
                lazy.append(str(t))
                del t
        except Exception as x:
            res.violation(f'{key_prefix}-file-raises-{core.exc_name(x)}', f'{label}: {len(order)} windows in a {kind} dump, '
                          f'consumed lazily: {x!r} at {core.short_tb(x)}', {'file': data})
            return
        if lazy != [str(t) for t in traces]:
            k = next((i for i, (a, b) in enumerate(zip(lazy, traces)) if a != str(b)), min(len(lazy), len(traces)))
            res.violation(f'{key_prefix}-depends-on-what-the-caller-keeps', f'{label}: {kind} dump of {len(order)} windows: trace '
                          f'{k} reads {lazy[k] if k < len(lazy) else None!r} when every trace is dropped before the next is '
                          f'requested, {str(traces[k]) if k < len(traces) else None!r} when all are kept', {'file': data})
            return
        res.count(f'file_traces_consumed_lazily_{kind}', len(lazy))
        got = {}
        k = 0
        for t in traces:
            t0 = t.ktraces[0].timestamp
            while k < len(spans) - 1 and t0 > spans[k][1]:
                k += 1
            got.setdefault(k, []).append(str(t))
        res.count(f'file_windows_{kind}', len(order))
        if kind == 'v2' and not _TERMINAL_DONE and os.environ.get('VERIF_SHARD', '0') in ('0', '3'):
            # once per process (shards 0 and 3): the same dump through the command line on a pipe and on terminals
            _TERMINAL_DONE.append(1)
            from vlib import cli
            if not cli.terminal_agrees(res, key_prefix, data, label):
                return
        for gi, i in enumerate(order):
            seq, texts, desc = cases[i]
            if got.get(gi, []) != texts:
                res.violation(f'{key_prefix}-differs-through-{kind}-dump', f'{label}: {desc}: rendered {got.get(gi, [])} when '
                              f'the records are read from a {kind} dump by the front end'
                              + (' (all records of the window share one timestamp)' if gi % 2 else '')
                              + f', {texts} when fed to the trace parser directly', {'description': desc, 'file': data})
                return


def traces_via_file(events, kind, rng):
    """The events written into a dump of the given container version and decoded by the public front end."""
    from pykdebugparser.pykdebugparser import PyKdebugParser
    records = gen.events_to_records(events)
    entries = gen.threadmap_for(events)
    if kind == 'v2':
        data = wire.v2_file(entries, 8, records)
    else:
        data = wire.V3Spec(entries=entries, chunks=gen.split_chunks(rng, records, rng.choice((1, 2, 3)))).build()
    return data, list(PyKdebugParser().traces(wire.stream(data)))


def run_stretched(res, key_prefix, cases, rng, label, rungs):
    """Long-running calls: the window of a case is stretched to W records (scale rungs of vlib/histories.py) by records
    of the same thread that belong to nobody; what the case renders must not change."""
    startable = [c for c in cases if len(c[0]) >= 2 and c[0][0][1] == H.START]
    if not startable:
        return
    for w in rungs:
        seq, texts, desc = rng.choice(startable)
        where = rng.choice((1, len(seq) - 1))              # right after the START / right before the last record
        # thousands of windows open at once instead of one long one (every record is appended to every open window of
        # its thread, so the cost is quadratic: width rungs end at 5000)
        wide = w <= 5000 and rng.random() < 0.7
        events, own = H.stretched_events(seq, where, w, rng, wide=wide)
        if wide:
            res.count('stretched_windows_wide')
        filler = events[where:where + len(events) - len(seq)]
        parser = ev.new_parser()
        got = []
        try:
            for e in events:
                t = parser.feed(e)
                if t is not None and id(t.ktraces[0]) in own:
                    got.append(str(t))
        except Exception as x:
            res.violation(f'{key_prefix}-stretched-raises-{core.exc_name(x)}', f'{label}: {desc} with {len(filler)} more '
                          f'same-thread records in its window: {x!r} at {core.short_tb(x)}', {'description': desc, 'window': w})
            return
        res.count('stretched_windows')
        res.count('stretched_window_records', len(events))
        if got != texts:
            res.violation(f'{key_prefix}-depends-on-window-length', f'{label}: {desc}: rendered {got} when its thread produces '
                          f'{len(filler)} {"STARTs of distinct ids (all left open)" if wide else "unrelated records"} {"after the START" if where == 1 else "before the last record"} '
                          f'(window of {len(events)}), {texts} without them', {'description': desc, 'window': w})
            return


def run_threads(res, key_prefix, cases, rng, label, n_threads=4, rounds=3):
    """Several OS threads of one process use the library at the same time, each with its own parser and its own events
    (nothing is shared by the callers).  The interpreter is asked to switch threads every few bytecodes, so that a
    module- or class-level scratch value shared behind the callers' backs is overwritten between its write and its
    read.  Every thread must render what a single-threaded run renders."""
    import sys
    import threading
    if len(cases) < n_threads:
        return
    old = sys.getswitchinterval()
    failures = []
    barrier = threading.Barrier(n_threads)

    def worker(k, mine):
        try:
            barrier.wait(timeout=30)
            for _ in range(rounds):
                for seq, texts, desc in mine:
                    parser = ev.new_parser()
                    got = []
                    for e in H.materialize([(6 + k, a) for a in seq], t0=5000):
                        t = parser.feed(e)
                        if t is not None:
                            got.append(str(t))
                    if got != texts and len(failures) < 5:
                        failures.append((desc, got, texts))
        except Exception as x:                                              # noqa
            if len(failures) < 5:
                failures.append((f'raised {x!r} at {core.short_tb(x)}', None, None))

    pool = list(cases)
    rng.shuffle(pool)
    pool = pool[:400]
    threads = [threading.Thread(target=worker, args=(k, pool[k::n_threads]), daemon=True) for k in range(n_threads)]
    sys.setswitchinterval(1e-6)
    try:
        for t in threads:
            t.start()
        for t in threads:
            t.join(timeout=300)
    finally:
        sys.setswitchinterval(old)
    if any(t.is_alive() for t in threads):
        res.inconclusive.append(f'{label}: concurrent threads did not finish within the watchdog')
        return
    res.count('windows_rendered_by_concurrent_threads', len(pool) * rounds)
    if failures:
        desc, got, texts = failures[0]
        res.violation(f'{key_prefix}-differs-between-concurrent-threads', f'{label}: {n_threads} OS threads, each with its '
                      f'own parser: {desc}: rendered {got}, single-threaded {texts} ({len(failures)} such)',
                      {'description': desc})


def run_front_end_sequences(res, key_prefix, cases, rng, label, n=40):
    """One front-end object serves several dumps in turn.  An earlier dump ends in the middle of a case (its call stays
    open), the next dump begins with the rest of that case: each request must give what a fresh object gives for the
    same bytes, under the default table and under an explicitly supplied one (the same table object every time)."""
    from pykdebugparser.pykdebugparser import PyKdebugParser
    from pykdebugparser.trace_codes import default_trace_codes
    cuttable = [c for c in cases if len(c[0]) >= 2]
    if not cuttable:
        return
    table = default_trace_codes()
    for use_table in (False, True):
        shared = PyKdebugParser()
        for _ in range(n):
            seq, texts, desc = rng.choice(cuttable)
            other = rng.choice(cases)[0]
            cut = rng.randrange(1, len(seq))
            evs = H.materialize([(6, a) for a in seq], t0=5000)
            tail = H.materialize([(6, a) for a in other], t0=max(e.timestamp for e in evs) + 100)
            entries = [(6, 100, b'proc0', b'')]
            dumps = []
            for part in (evs[:cut], evs[cut:] + tail):
                records = gen.events_to_records(part)
                dumps.append(wire.v2_file(entries, 8, records) if rng.random() < 0.5 else
                             wire.V3Spec(entries=entries, chunks=gen.split_chunks(rng, records, rng.choice((1, 2)))).build())
            for which, data in zip(('the dump that ends inside the call', 'the dump that begins with the rest of the call'),
                                   dumps):
                kw = {'trace_codes': table} if use_table else {}
                try:
                    fresh = [str(t) for t in PyKdebugParser().traces(io.BytesIO(data), **kw)]
                    got = [str(t) for t in shared.traces(wire.stream(data), **kw)]
                except Exception as x:
                    res.violation(f'{key_prefix}-front-end-sequence-raises-{core.exc_name(x)}', f'{label}: {desc}, {which}: '
                                  f'{x!r} at {core.short_tb(x)}', {'description': desc, 'file': data})
                    return
                res.count('front_end_sequence_requests')
                if got != fresh:
                    res.violation(f'{key_prefix}-depends-on-earlier-requests', f'{label}: {desc}, {which}: an object that '
                                  f'served other dumps before renders {got}, a fresh object {fresh} '
                                  f'({"supplied" if use_table else "default"} table)', {'description': desc, 'file': data})
                    return


def run_permuted(res, key_prefix, cases, rng, label, n=300):
    """The same windows under a supplied table that hands the ids in use to other names in use (ev.permuted), in the same
    process that has just rendered them under the bundled table: which decoder renders an id is the table's decision,
    request by request; nothing remembered per id may leak from one table to the other."""
    pool = list(cases)
    rng.shuffle(pool)
    pool = pool[:n]
    if len(pool) < 2:
        return
    lists = [H.materialize([(6, a) for a in seq], t0=5000) for seq, _, _ in pool]
    try:
        lists2, table = ev.permuted(lists, rng)
    except Exception as x:
        res.inconclusive.append(f'{label}: permuted table could not be built: {x!r}')
        return
    for (seq, texts, desc), events2 in zip(pool, lists2):
        try:
            parser = ev.new_parser(codes=table)
            got = [str(t) for t in (parser.feed(e) for e in events2) if t is not None]
        except Exception as x:
            res.violation(f'{key_prefix}-permuted-table-raises-{core.exc_name(x)}', f'{label}: {desc} under a table that hands '
                          f'its ids to other names: {x!r} at {core.short_tb(x)}', {'description': desc})
            return
        res.count('windows_under_a_table_with_permuted_ids')
        if got != texts:
            res.violation(f'{key_prefix}-depends-on-another-tables-ids', f'{label}: {desc}: rendered {got} under a supplied table '
                          f'that gives its ids to other decoders (the records renumbered accordingly), {texts} under the '
                          f'bundled table in the same process', {'description': desc})
            return


def run_aborted(res, key_prefix, cases, rng, label, n=60):
    """A request is cut short by an exception that does not come from the data (monitors.AbortAt: raised at the k-th line
    executed inside the repository, for every k until the window completes), the process goes on, and the same window is
    decoded again on a fresh parser: it reads as if nothing had happened before."""
    from vlib import monitors
    pool = list(cases)
    rng.shuffle(pool)
    for seq, texts, desc in pool[:n]:
        events = H.materialize([(6, a) for a in seq], t0=5000)
        k = 0
        while True:
            k += 1 if k < 40 else rng.randrange(1, 9)
            parser = ev.new_parser()
            fired = False
            try:
                with monitors.AbortAt(k) as ab:
                    for e in events:
                        t = parser.feed(e)
                        if t is not None:
                            str(t)
                fired = ab.fired
            except monitors.Aborted:
                fired = True
            except Exception:
                fired = True            # (an abort in the middle may surface as another error: the request failed)
            res.count('aborted_requests')
            try:
                fresh = ev.new_parser()
                got = [str(t) for t in (fresh.feed(e) for e in events) if t is not None]
            except Exception as x:
                res.violation(f'{key_prefix}-raises-after-an-aborted-request', f'{label}: {desc}: after an earlier decode of the '
                              f'same window was aborted at line {k}, a fresh parser raises {x!r} at {core.short_tb(x)}',
                              {'description': desc, 'abort_at': k})
                return
            if got != texts:
                res.violation(f'{key_prefix}-depends-on-an-aborted-request', f'{label}: {desc}: after an earlier decode of the '
                              f'same window was aborted at line {k} inside the library (an exception not from the data), a '
                              f'fresh parser renders {got}, expected {texts}', {'description': desc, 'abort_at': k})
                return
            if not fired or k > 400:
                break


def run_all(res, key_prefix, cases, rng, label, ctx):
    run_stream(res, key_prefix, cases, rng, label)
    run_files(res, key_prefix, cases, rng, label)
    rungs = [w for i, w in enumerate(ctx.pick(H.SCALE_RUNGS_QUICK, H.SCALE_RUNGS_THOROUGH)) if ctx.mine(i)]
    run_stretched(res, key_prefix, cases, rng, label, rungs)
    run_threads(res, key_prefix, cases, rng, label)
    run_front_end_sequences(res, key_prefix, cases, rng, label, n=ctx.pick(12, 60))
    run_relabelled(res, key_prefix, cases, rng, label, n=ctx.pick(200, 2000))
    run_permuted(res, key_prefix, cases, rng, label, n=ctx.pick(300, 3000))
    run_live_table(res, key_prefix, cases, rng, label, n=ctx.pick(300, 3000))
    run_aborted(res, key_prefix, cases, rng, label, n=ctx.pick(12, 100))
    if ctx.shard == 0 or ctx.thorough:
        run_cold(res, key_prefix, cases, rng, label, n_procs=ctx.pick(6, 12))


def run_relabelled(res, key_prefix, cases, rng, label, n=200):
    """The same windows under a supplied code table that lists every name under several ids (ev.relabel): the records of
    one window use different ids of one name; every rendering must read as under the bundled ids."""
    pool = list(cases)
    rng.shuffle(pool)
    for seq, texts, desc in pool[:n]:
        events = H.materialize([(6, a) for a in seq], t0=5000)
        try:
            events2, table = ev.relabel(events, rng)
            import types
            parser = ev.new_parser(codes=table if rng.random() < 0.5 else types.MappingProxyType(table))
            got = []
            for e in events2:
                t = parser.feed(e)
                if t is not None:
                    got.append(str(t))
        except Exception as x:
            res.violation(f'{key_prefix}-relabelled-raises-{core.exc_name(x)}', f'{label}: {desc} under a table listing names under '
                          f'several ids: {x!r} at {core.short_tb(x)}', {'description': desc})
            return
        res.count('windows_under_a_table_with_names_under_several_ids')
        if got != texts:
            res.violation(f'{key_prefix}-depends-on-which-id-of-a-name', f'{label}: {desc}: rendered {got} when the supplied table '
                          f'lists each name under several ids and the records use any of them, {texts} under the bundled ids',
                          {'description': desc})
            return


def run_cold(res, key_prefix, cases, rng, label, n_procs=8, n_cases=40, n_threads=4):
    """Cold start under concurrency (vlib/coldstart.py): fresh interpreters in which several OS threads decode the same
    windows for the first time at the same moment.  Every thread renders what a warm single-threaded run renders."""
    import json
    import os
    import subprocess
    import sys
    import tempfile
    pool = list(cases)
    rng.shuffle(pool)
    pool = pool[:n_cases]
    if not pool:
        return

    def enc(p):
        return {'hex': bytes(p).hex()} if isinstance(p, (bytes, bytearray)) else list(p)
    work = os.path.join(core.VERIF_DIR, '.work')
    fd, path = tempfile.mkstemp(prefix='verif-cold-', suffix='.json', dir=work if os.path.isdir(work) else None)
    with os.fdopen(fd, 'w') as f:
        json.dump({'threads': n_threads, 'cases': [[[c, q, enc(p)] for c, q, p in seq] for seq, _, _ in pool]}, f)
    try:
        procs = [subprocess.Popen([sys.executable, '-m', 'vlib.coldstart', path], stdout=subprocess.PIPE,
                                  stderr=subprocess.PIPE, env=dict(os.environ)) for _ in range(n_procs)]
        for p in procs:
            try:
                stdout, stderr = p.communicate(timeout=300)
            except subprocess.TimeoutExpired:
                p.kill()
                res.inconclusive.append(f'{label}: a cold-start interpreter did not finish')
                continue
            if p.returncode != 0:
                res.inconclusive.append(f'{label}: cold-start interpreter failed: {stderr.decode("utf-8", "replace")[-400:]}')
                continue
            out = json.loads(stdout)
            res.count('cold_start_interpreters')
            for k, texts in sorted(out.items()):
                res.count('windows_rendered_at_cold_start', len(texts))
                for (seq, want, desc), got in zip(pool, texts + [None] * (len(pool) - len(texts))):
                    if got != want:
                        res.violation(f'{key_prefix}-differs-at-concurrent-cold-start', f'{label}: {desc}: in a fresh '
                                      f'interpreter with {n_threads} OS threads decoding the same windows for the first time at '
                                      f'the same moment thread {k} rendered {got}, a warm single-threaded run {want}',
                                      {'description': desc})
                        return
    finally:
        os.unlink(path)


def run_live_table(res, key_prefix, cases, rng, label, n=300):
    """ONE long-lived parser whose code table is the caller's own dict, edited in place between windows without changing
    its size: before every window two ids in use trade their names (and the window's records are renumbered to match).
    The table is read as it is when a record arrives; nothing derived from an earlier state of it may be used."""
    pool = list(cases)
    rng.shuffle(pool)
    pool = pool[:n]
    if len(pool) < 2:
        return
    bundled = ev.bundled_codes()
    table = dict(bundled)
    current = {}                      # bundled id -> id under which the table lists that name now
    parser = ev.new_parser(codes=table)
    ts = 5000
    for seq, texts, desc in pool:
        events = H.materialize([(6, a) for a in seq], t0=ts)
        ts = max(e.timestamp for e in events) + 100
        used = sorted({e.eventid for e in events if e.eventid in bundled and e.eventid not in ev.REAL_FAULT_IDS})
        if len(used) >= 2 and rng.random() < 0.7:
            a, b = rng.sample(used, 2)
            ia, ib = current.get(a, a), current.get(b, b)
            table[ia], table[ib] = table[ib], table[ia]          # same size, two names trade ids
            current[a], current[b] = ib, ia
        try:
            got = []
            for e in events:
                e2 = ev.mk(e.timestamp, current.get(e.eventid, e.eventid), e.func_qualifier, e.data, e.tid)
                t = parser.feed(e2)
                if t is not None:
                    got.append(str(t))
        except Exception as x:
            res.violation(f'{key_prefix}-live-table-raises-{core.exc_name(x)}', f'{label}: {desc} on a parser whose table is '
                          f'edited in place between windows: {x!r} at {core.short_tb(x)}', {'description': desc})
            return
        res.count('windows_on_a_parser_with_a_live_table')
        if got != texts:
            res.violation(f'{key_prefix}-table-state-remembered', f'{label}: {desc}: rendered {got} on a long-lived parser whose '
                          f'table had two names trade ids (in place, same size) before this window, {texts} under the bundled '
                          f'table', {'description': desc})
            return
