"""Independent statement of the wire formats (trusted base of C01/C02/C03/C06/C12-C14).

Nothing here imports the repository: layouts are literal offsets, tags are literal bytes, decoding is
int.from_bytes on fixed slices.  A change of any tag, offset, mask or format string in the repository makes
the real parser disagree with the files built here.
"""
import plistlib

RECORD_SIZE = 64
V2_MAGIC = bytes([0x00, 0x02, 0xaa, 0x55])
V3_MAGIC = bytes([0x00, 0x03, 0xaa, 0x55])
STACKSHOT_END = b'stackshot_out_fl'
TAG_THREADMAP = bytes([0x00, 0x1d, 0, 0, 0, 0, 0, 0])
TAG_EVENTS = bytes([0x00, 0x1e, 0, 0, 0, 0, 0, 0])
TAG_MORE_EVENTS = bytes([0x00, 0x20, 0, 0, 0, 0, 0, 0])
TAG_DYLD_MODULES = bytes([0x01, 0x80, 0, 0, 0, 0, 0, 0])
TAG_IMAGES = bytes([0x04, 0x80, 0, 0, 1, 0, 0, 0])
TAG_KEXTS = bytes([0x05, 0x80, 0, 0, 0, 0, 0, 0])
TAG_TRACE_CODES = bytes([0x0f, 0x80, 0, 0, 0, 0, 0, 0])
TAG_PROCESSES = bytes([0x10, 0x80, 0, 0, 0, 0, 0, 0])
TAG_LOG_EVENTS = bytes([0x11, 0x80, 0, 0, 0, 0, 0, 0])
TAG_LOG_STRINGS = bytes([0x12, 0x80, 0, 0, 0, 0, 0, 0])
KNOWN_BLOCK_TAGS = (TAG_DYLD_MODULES, TAG_IMAGES, TAG_KEXTS, TAG_TRACE_CODES, TAG_PROCESSES, TAG_LOG_EVENTS,
                    TAG_LOG_STRINGS)

QUAL_NONE, QUAL_START, QUAL_END, QUAL_ALL = 0, 1, 2, 3
M64 = (1 << 64) - 1
M32 = (1 << 32) - 1


def u(n, width):
    return int(n).to_bytes(width, 'little')


def record(timestamp, args, tid, debugid, cpuid=0, unused=0):
    """64-byte kd_buf: ts u64 @0 | 32 arg bytes @8 | tid u64 @40 | debugid u32 @48 | cpuid u32 @52 | unused u64 @56."""
    if isinstance(args, (bytes, bytearray)):
        argb = bytes(args)
        assert len(argb) == 32
    else:
        assert len(args) == 4
        argb = b''.join(u(a & M64, 8) for a in args)
    return u(timestamp & M64, 8) + argb + u(tid & M64, 8) + u(debugid & M32, 4) + u(cpuid & M32, 4) + u(unused & M64, 8)


def ref_decode(rec):
    """Reference decode of one record (the C01 model)."""
    assert len(rec) == RECORD_SIZE
    data = rec[8:40]
    debugid = int.from_bytes(rec[48:52], 'little')
    return {
        'timestamp': int.from_bytes(rec[0:8], 'little'),
        'data': data,
        'values': tuple(int.from_bytes(data[i:i + 8], 'little') for i in (0, 8, 16, 24)),
        'tid': int.from_bytes(rec[40:48], 'little'),
        'debugid': debugid,
        'eventid': debugid - (debugid % 4),
        'func_qualifier': debugid % 4,
    }


REF_FIELDS = ('timestamp', 'data', 'values', 'tid', 'debugid', 'eventid', 'func_qualifier')


def ref_tuple(rec):
    d = ref_decode(rec)
    return tuple(d[f] for f in REF_FIELDS)


def event_tuple(ev):
    """The observable content of a repository Kevent (by attribute name, so field order is also checked)."""
    return (ev.timestamp, ev.data, ev.values, ev.tid, ev.debugid, ev.eventid, ev.func_qualifier)


# ---------------------------------------------------------------------------------------------
# thread maps
# ---------------------------------------------------------------------------------------------

def threadmap_entry(tid, pid, name: bytes, junk: bytes = b''):
    """tid u64, pid u32, 20-byte name field: NUL-terminated text, anything after the NUL."""
    assert len(name) <= 19 and b'\x00' not in name
    field = name + b'\x00' + junk
    field = (field + b'\x00' * 20)[:20]
    return u(tid, 8) + u(pid, 4) + field


def threadmap_model(entries):
    """entries: [(tid, pid, name bytes, ...)] -> (threads_pids, pids_names), later entries win."""
    tp, pn = {}, {}
    for e in entries:
        tid, pid, name = e[0], e[1], e[2]
        tp[tid] = pid
        pn[pid] = name.decode('utf-8')
    return tp, pn


# ---------------------------------------------------------------------------------------------
# version 2
# ---------------------------------------------------------------------------------------------

def v2_file(entries, pad, records, hdr_fill=b'\x00', is_64bit=1, tick=24000000):
    """magic | nthreads u32 | 12 B | is_64bit u32 | tick u64 | 0x100 B | entries | zero padding | records.

    hdr_fill: bytes used (cyclically) for the header's don't-care padding fields."""
    def fill(n, salt):
        if len(hdr_fill) == 1:
            return hdr_fill * n
        return bytes(hdr_fill[(salt + i) % len(hdr_fill)] for i in range(n))
    out = bytearray(V2_MAGIC)
    out += u(len(entries), 4)
    out += fill(12, 1)
    out += u(is_64bit, 4)
    out += u(tick, 8)
    out += fill(0x100, 7)
    for e in entries:
        out += threadmap_entry(*e)
    out += b'\x00' * pad
    for r in records:
        out += r
    return bytes(out)


def v2_events_offset(entries, pad):
    return 4 + 4 + 12 + 4 + 8 + 0x100 + 32 * len(entries) + pad


# ---------------------------------------------------------------------------------------------
# version 3
# ---------------------------------------------------------------------------------------------

def first_index(hay: bytes, needle: bytes):
    return hay.find(needle)


def v3_header(cpu_info, numer=125, denom=3, timestamp=0x1122334455, wall_secs=1600000000, wall_usecs=123456,
              tz_minuteswest=0, tz_dst=0, flags=0, tag=0x55aa0300, sub_tag=0, length=0, tag2=0):
    plist = plistlib.dumps(cpu_info, fmt=plistlib.FMT_BINARY)
    body = (u(tag, 4) + u(sub_tag, 4) + u(length, 8) + u(numer, 4) + u(denom, 4) + u(timestamp, 8) + u(wall_secs, 8)
            + u(wall_usecs, 4) + u(tz_minuteswest, 4) + u(tz_dst, 4) + u(flags, 4) + u(tag2, 4)
            + u(len(plist), 8) + plist)
    body += b'\x00' * (-len(body) % 8)
    return body


def v3_block(tag, payload, padded=True):
    b = tag + u(len(payload), 8) + payload
    if padded:
        b += b'\x00' * (-(8 + len(payload)) % 8)
    return b


class V3Spec:
    """A fully explicit description of a v3 dump; build() returns bytes plus the offsets the oracles need."""

    def __init__(self, cpu_info=None, header_kw=None, pre_stackshot=b'', pre_threadmap=b'', entries=(),
                 threadmap_tail=b'', chunks=((),), chunk_fillers=None, more_fillers=None, blocks=(),
                 last_block_padded=True, trailing=b''):
        self.cpu_info = {'cpus': 2} if cpu_info is None else cpu_info
        self.header_kw = header_kw or {}
        self.pre_stackshot = pre_stackshot
        self.pre_threadmap = pre_threadmap
        self.entries = list(entries)
        self.threadmap_tail = threadmap_tail      # < 32 bytes appended inside the threadmap length (ignored)
        self.chunks = [list(c) for c in chunks]   # list of lists of 64-byte records
        self.chunk_fillers = chunk_fillers or [b''] * len(self.chunks)   # before each events tag
        self.more_fillers = more_fillers          # unused alias
        self.blocks = list(blocks)                # [(tag, payload bytes)]
        self.last_block_padded = last_block_padded
        self.trailing = trailing
        self.chunk_slack = []                     # per chunk: bytes counted in the chunk length after its records

    def build(self):
        out = bytearray(V3_MAGIC)
        out += v3_header(self.cpu_info, **self.header_kw)
        out += b'\x00' * 4
        assert len(out) % 8 == 0
        scan_from = len(out)
        out += self.pre_stackshot + STACKSHOT_END
        # unambiguity: the first occurrence of the marker must be the intended one
        if bytes(out).find(STACKSHOT_END, scan_from) != len(out) - len(STACKSHOT_END):      # (raise, not assert: python -O)
            raise AssertionError('ambiguous stackshot filler')
        scan_from = len(out)
        out += self.pre_threadmap + TAG_THREADMAP
        if bytes(out).find(TAG_THREADMAP, scan_from) != len(out) - 8:
            raise AssertionError('ambiguous threadmap filler')
        tm = b''.join(threadmap_entry(*e) for e in self.entries) + self.threadmap_tail
        out += u(len(tm), 8) + tm
        record_offsets = []
        chunk_ends = []
        for ci, chunk in enumerate(self.chunks):
            if ci > 0:
                out += TAG_MORE_EVENTS
            scan_from = len(out)
            out += self.chunk_fillers[ci] + TAG_EVENTS
            if bytes(out).find(TAG_EVENTS, scan_from) != len(out) - 8:
                raise AssertionError('ambiguous events filler')
            slack = self.chunk_slack[ci] if ci < len(self.chunk_slack) else b''
            out += u(64 * len(chunk) + len(slack), 8) + b'\x00' * 8
            for r in chunk:
                record_offsets.append(len(out))
                out += r
            out += slack        # a chunk length that is not a whole number of records: fill bytes after the last record
            chunk_ends.append(len(out))
        self.events_end = len(out)
        for bi, (tag, payload) in enumerate(self.blocks):
            last = bi == len(self.blocks) - 1
            out += v3_block(tag, payload, padded=(self.last_block_padded or not last))
        out += self.trailing
        self.record_offsets = record_offsets
        self.chunk_ends = chunk_ends
        return bytes(out)

    def records(self):
        return [r for c in self.chunks for r in c]


def sanitize_filler(filler: bytes, *needles):
    """Remove every occurrence of the needles from random filler (keeps partial prefixes, which is the point)."""
    changed = True
    while changed:
        changed = False
        for n in needles:
            k = filler.find(n)
            while k != -1:
                filler = filler[:k + len(n) - 1] + bytes([filler[k + len(n) - 1] ^ 0x5a]) + filler[k + len(n):]
                changed = True
                k = filler.find(n)
    return filler


# ---------------------------------------------------------------------------------------------
# kernel chunking of paths and strings
# ---------------------------------------------------------------------------------------------

def _words(text: bytes, n_words: int, word: int):
    """`text` laid into n_words 64-bit argument words, `word` text bytes per word (8: an LP64 kernel copies the text
    through `long` / `uintptr_t` words of 8 bytes; 4: an ILP32 kernel with 64-bit records - arm64_32 - copies 4 text
    bytes per word and the upper half of every argument word is zero), zero padded."""
    out = b''
    for i in range(n_words):
        part = text[i * word:(i + 1) * word]
        out += part + b'\x00' * (8 - len(part))
    return out


def _chunked(head: bytes, text: bytes, word: int, none_in_between=True):
    head_words = len(head) // 8
    first_n = (4 - head_words) * word
    datas = [head + _words(text[:first_n], 4 - head_words, word)]
    rest = text[first_n:]
    while rest:
        part, rest = rest[:4 * word], rest[4 * word:]
        datas.append(_words(part, 4, word))
    out = []
    for i, d in enumerate(datas):
        q = 0
        if i == 0:
            q |= QUAL_START
        if i == len(datas) - 1:
            q |= QUAL_END
        out.append((q, d))
    return out


def lookup_chunks(vnode_id, path: bytes, word=8):
    """kdebug_lookup_gen_events: first record = vnode id + 24 path bytes (START); then 32-byte records; END on
    the last; START|END when the path fits in 24 bytes.  Returns [(qualifier, 32 data bytes)].  (word=4: 12 and 16 text
    bytes per record, see _words.)"""
    return _chunked(u(vnode_id, 8), path, word)


def global_string_chunks(debugid, str_id, text: bytes, word=8):
    """kernel_debug_string_internal: first record = debugid, str_id, 16 bytes (START); then 32-byte records
    (NONE); END on the last; START|END when it fits."""
    return _chunked(u(debugid, 8) + u(str_id, 8), text, word)


def simple_string_chunks(text: bytes, word=8):
    """kernel_debug_string_simple (thread names): 32 bytes per record, START on the first, END on the last."""
    return _chunked(b'', text, word)


_STREAM_TURN = [0]


def stream(data: bytes):
    """A binary stream over the bytes, as callers may hand one in: an in-memory BytesIO, a buffered reader with a small
    or a large buffer (what open(path, 'rb') returns), a real temporary file, a dump that does not begin at offset 0 of
    its stream (behind a wrapper the caller has already consumed: in memory and on disk), and the file objects of the
    compression modules (gzip / bz2 / lzma: seekable streams that deliver the dump's bytes while their fileno() names
    a file holding other bytes), and a memory-mapped file.  Rotates deterministically."""
    import io
    import tempfile
    _STREAM_TURN[0] += 1
    k = _STREAM_TURN[0] % 12
    if k == 11 and data:
        # a memory-mapped file (mmap objects are seekable streams with read(); a seek beyond the end raises there)
        import mmap
        tmp = tempfile.TemporaryFile()
        tmp.write(data)
        tmp.flush()
        m = mmap.mmap(tmp.fileno(), 0, access=mmap.ACCESS_READ)
        return m
    k = k % 11
    if k in (0, 1):
        return io.BytesIO(data)
    if k == 2:
        return io.BufferedReader(io.BytesIO(data), buffer_size=16)
    if k == 3:
        return io.BufferedReader(io.BytesIO(data), buffer_size=1 << 16)
    if k in (5, 6):
        prefix = (b'BUNDLE\x00\x01' + bytes(range(1, 17)), b'\x00' * 4096 + b'wrap')[_STREAM_TURN[0] % 2]
        f = io.BytesIO(prefix + data) if k == 5 else tempfile.TemporaryFile()
        if k == 6:
            f.write(prefix + data)
        f.seek(len(prefix))
        return f
    if k in (7, 8, 9):
        import bz2
        import gzip
        import lzma
        mod = (gzip, bz2, lzma)[k - 7]
        if len(data) > 1 << 20:
            return io.BytesIO(data)                 # (backward seeks re-read a compressed stream from its start)
        tmp = tempfile.NamedTemporaryFile(prefix='verif-stream-', suffix='.' + mod.__name__)
        tmp.write(mod.compress(data))
        tmp.flush()
        f = mod.open(tmp.name, 'rb')
        f._verif_keep_alive = tmp                   # the compressed file lives as long as the stream object
        return f
    f = tempfile.TemporaryFile()
    f.write(data)
    f.seek(0)
    return f
