"""Raw os_log record generator and reference decoder (shared by C16 and C03), written from the field table of
the format, independent of the repository's decoder."""
import copy
import random
from datetime import datetime, timedelta, timezone

# key -> (decoded field name, kind)
MANDATORY = [('cm', 'composed_message', 'str'), ('t', 'type_', 'raw'), ('s', 'size', 'raw'),
             ('tid', 'thread_identifier', 'raw'), ('ns', 'continuous_nanoseconds_since_boot', 'raw'),
             ('mct', 'mach_continuous_timestamp', 'raw'), ('b', 'boot_uuid', 'raw'),
             ('piu', 'process_image_uuid', 'raw'), ('ud', 'unix_date', 'date'), ('utz', 'unix_timezone', 'tz')]

OPTIONAL = [
    ('ti', 'trace_identifier', 'ti'), ('pip', 'process_image_path', 'str'), ('p', 'process', 'str'),
    ('sip', 'sender_image_path', 'str'), ('send', 'sender', 'str'), ('sio', 'sender_image_offset', 'raw'),
    ('siu', 'sender_image_uuid', 'raw'), ('lt', 'log_type', 'logtype'), ('ttl', 'time_to_live', 'raw'),
    ('pid', 'process_identifier', 'raw'), ('aid', 'activity_identifier', 'raw'),
    ('paid', 'parent_activity_identifier', 'raw'), ('tai', 'transition_activity_identifier', 'raw'),
    ('sub', 'subsystem', 'str'), ('cat', 'category', 'str'), ('f', 'format_string', 'str'),
    ('cai', 'creator_activity_identifier', 'raw'), ('cpui', 'creator_process_unique_identifier', 'raw'),
    ('si', 'signpost_identifier', 'raw'), ('sn', 'signpost_name', 'str'), ('st', 'signpost_type', 'raw'),
    ('ss', 'signpost_scope', 'raw'), ('lsmct', 'loss_start_mach_continuous_timestamp', 'raw'),
    ('lemct', 'loss_end_mach_continuous_timestamp', 'raw'), ('lsud', 'loss_start_unix_date', 'raw'),
    ('leud', 'loss_end_unix_date', 'raw'), ('lsutz', 'loss_start_unix_timezone', 'tz'),
    ('leutz', 'loss_end_unix_timezone', 'tz'), ('bt', 'backtrace', 'bt'), ('lc', 'loss_count', 'lc'),
    ('dm', 'decomposed_message', 'dm'),
]
OPTIONAL_KEYS = [k for k, _, _ in OPTIONAL]
assert len(OPTIONAL_KEYS) == 31

DEFAULTS = {
    'process_image_path': '', 'process': '', 'sender_image_path': '', 'sender': '', 'sender_image_offset': 0,
    'sender_image_uuid': b'', 'log_type': None, 'time_to_live': 0, 'process_identifier': 0, 'subsystem': '',
    'category': '', 'format_string': '', 'activity_identifier': 0, 'parent_activity_identifier': 0,
    'decomposed_message': {}, 'trace_identifier': None, 'creator_activity_identifier': 0,
    'creator_process_unique_identifier': 0, 'signpost_identifier': 0, 'signpost_name': '', 'signpost_type': 0,
    'signpost_scope': 0, 'loss_start_mach_continuous_timestamp': 0, 'loss_end_mach_continuous_timestamp': 0,
    'loss_start_unix_date': {}, 'loss_end_unix_date': {}, 'loss_start_unix_timezone': {},
    'loss_end_unix_timezone': {}, 'loss_count': {}, 'backtrace': [],
}

LOG_TYPES = {0: 'DEFAULT', 1: 'INFO', 2: 'DEBUG', 0x10: 'ERROR', 0x11: 'FAULT'}

# trace identifier: namespace byte -> defined type bytes (None = raw byte, any value)
NAMESPACES = {0: 'unknown', 2: 'activity', 3: 'trace', 4: 'log', 5: 'metadata', 6: 'signpost', 7: 'loss'}
NS_TYPES = {
    2: {1: 'create', 2: 'swap', 3: 'useraction'},
    3: {0: 'default', 1: 'info', 2: 'debug', 0x10: 'error', 0x11: 'fault'},
    4: {0: 'default', 1: 'info', 2: 'debug', 0x10: 'error', 0x11: 'fault'},
    5: {1: 'dyld', 2: 'subsystem', 3: 'kext', 4: 'coprocessor'},
}
SIGNPOST_KINDS = (0, 1, 2)
SIGNPOST_SCOPES = (0x40, 0x80, 0xc0)
PC_STYLES = {0: 'none', 1: 'main_exe', 2: 'shared_cache', 3: 'main_plugin', 4: 'absolute', 5: 'uuid_relative',
             6: 'large_shared_cache', 7: '_unused7'}
LOG_FLAG_BITS = (1, 2, 4, 8, 0x10)
SIGNPOST_FLAG_BITS = (1, 2, 4, 8, 0x10, 0x80)


class Strings:
    """String table of one dump: text <-> index (indices deliberately not dense and not ordered)."""

    def __init__(self, rng):
        self.rng = rng
        self.by_text = {}
        self.by_idx = {}
        self.next = rng.randrange(0, 50)

    def idx(self, text):
        if text not in self.by_text:
            self.by_text[text] = self.next
            self.by_idx[self.next] = text
            self.next += self.rng.randrange(1, 4)
        return self.by_text[text]

    def plist(self):
        return {'StringIndex': dict(self.by_text)}

    def inverted(self):
        """index -> text; the live table (it only ever grows), shared by every caller."""
        return self.by_idx


WORDS = ['alpha', 'beta', 'gamma', 'com.apple.xpc', 'launchd', 'kernel', 'Safari', '/usr/libexec/tccd', 'proc',
         'wifid', 'error %d', '%{public}s', 'café', '日本', 'x', '', 'default', 'state %lu', '123', '456', '0', '1',
         'com.apple.WebKit', 'com.apple.WebKit.WebContent', 'com.apple.WebKit.Networking']


# what a string table may hold at the EDGES of a text: terminators a producer kept, blanks, control and invisible characters
# - a text is what the index says, character for character (a binary plist carries all of them)
TEXT_EDGES = ('\x00', '\x00\x00', ' ', '  ', '\t', '\x7f', '\u00a0', '\u200b', '\ufeff', '"', "'", '\\')
# (line-breaking characters: only for checks that compare decoded fields, not printed lines - C16 switches them on)
LINE_BREAK_EDGES = ('\n', '\r\n', '\x1f', '\u2028', '\x85')
WITH_LINE_BREAKS = [False]


def rand_text(rng):
    c = rng.random()
    edges = TEXT_EDGES + LINE_BREAK_EDGES if WITH_LINE_BREAKS[0] else TEXT_EDGES
    if c < 0.62:
        return rng.choice(WORDS) + str(rng.randrange(1000))
    if c < 0.72:
        return rng.choice(WORDS) + str(rng.randrange(1000)) + rng.choice(edges)
    if c < 0.78:
        return rng.choice(edges) + rng.choice(WORDS) + str(rng.randrange(1000))
    if c < 0.8:
        return rng.choice(edges)
    return rng.choice(WORDS)


def dumps_index(obj, rng):
    """A string-index section as a binary plist or - when every text survives that format (no NUL / control characters, no
    CR) - sometimes as an XML one."""
    import plistlib
    if rng.random() < 0.5:
        try:
            data = plistlib.dumps(obj, fmt=plistlib.FMT_XML)
            if plistlib.loads(data) == obj:
                return data
        except Exception:
            pass
    return plistlib.dumps(obj, fmt=plistlib.FMT_BINARY)


def rand_int(rng):
    return rng.choice((0, 1, rng.randrange(1 << 16), rng.randrange(1 << 32), rng.randrange(1 << 63)))


def pack_ti(namespace, type_, trace_flags, flags, code):
    return namespace | (type_ << 8) | (trace_flags << 16) | (flags << 24) | (code << 32)


def gen_ti(rng, fixed_flags=True):
    """A defined trace-identifier word.  fixed_flags=False also draws flag combinations / zero for the
    flag-carrying namespaces."""
    ns = rng.choice(list(NAMESPACES))
    if ns in NS_TYPES:
        ty = rng.choice(list(NS_TYPES[ns]))
    elif ns == 6:
        ty = rng.choice(SIGNPOST_KINDS) | rng.choice(SIGNPOST_SCOPES + (0,))
    else:
        ty = rng.randrange(256)
    tf = rng.randrange(64)
    if ns == 4:
        fl = sum(b for b in LOG_FLAG_BITS if rng.random() < 0.5)
    elif ns in (3, 6):
        fl = sum(b for b in SIGNPOST_FLAG_BITS if rng.random() < 0.4)
    else:
        fl = rng.randrange(256)
    return pack_ti(ns, ty, tf, fl, rng.randrange(1 << 32))


def gen_segment(rng, strings, full=None):
    def has(p=0.5):
        return True if full is True else (False if full is False else rng.random() < p)
    seg = {}
    if has():
        seg['lp'] = strings.idx(rand_text(rng))
    if has():
        p = {'w': rng.randrange(0, 20), 'p': rng.randrange(0, 20)}
        if has():
            p['rs'] = strings.idx(rand_text(rng))
        if has():
            p['t'] = [strings.idx(rand_text(rng)) for _ in range(rng.randrange(0, 3))]
        if has():
            p['tn'] = strings.idx(rand_text(rng))
        if has():
            p['ty'] = strings.idx(rand_text(rng))
        seg['p'] = p
    if has():
        a = {}
        if has():
            a['a'] = rng.choice((0, 1, 2, 3, 3))
        if has():
            a['p'] = rng.randrange(0, 5)
        if has(0.7):
            a['c'] = rng.choice((0, 1, 1, 2, 2, 3))
        if has():
            a['sc'] = rng.randrange(0, 5)
        if has():
            a['st'] = rng.randrange(0, 12)
        if has():
            a['or'] = strings.idx(rand_text(rng)) if a.get('c') == 2 else rand_int(rng)
        seg['a'] = a
    return seg


def gen_dm(rng, strings, full=None):
    n = rng.randrange(0, 4) if full is None else (2 if full else 0)
    dm = {'pc': n, 's': rng.randrange(0, 4)}
    if n or rng.random() < 0.3:
        dm['seg'] = [gen_segment(rng, strings, full) for _ in range(n)]
    return dm


def gen_value(rng, key, strings):
    kind = dict((k, kd) for k, _, kd in MANDATORY + OPTIONAL)[key]
    if kind == 'str':
        return strings.idx(rand_text(rng))
    if key in ('b', 'piu', 'siu'):
        return rng.randbytes(16)
    if kind == 'raw':
        if key in ('lsud', 'leud'):
            return {'sec': rng.randrange(1 << 31), 'usec': rng.randrange(1000000)}
        if key == 'tid':
            return rng.choice((0, rng.randrange(1, 1 << 24)))
        if key == 'pid':
            return rng.randrange(0, 100000)
        return rand_int(rng)
    if kind == 'date':
        return {'sec': rng.randrange(1 << 31), 'usec': rng.randrange(1000000)}
    if kind == 'tz':
        return {'mw': rng.randrange(-720, 720), 'dt': rng.randrange(0, 2)}
    if kind == 'ti':
        return gen_ti(rng)
    if kind == 'logtype':
        return rng.choice(list(LOG_TYPES))
    if kind == 'bt':
        frames = [{'iu': rng.randbytes(16), 'io': rng.randrange(1 << 40)} for _ in range(rng.randrange(0, 4))]
        if frames and rng.random() < 0.4:
            # recursion: the same frame again - a binary plist stores it once and both places get the SAME dict object
            frames.insert(rng.randrange(len(frames) + 1), rng.choice(frames))
        return frames
    if kind == 'lc':
        return {'c': rng.randrange(1 << 20), 's': rng.randrange(4)}
    if kind == 'dm':
        return gen_dm(rng, strings)
    raise AssertionError(kind)


def gen_event(rng, strings, optional_keys):
    ev = {}
    for k, _, _ in MANDATORY:
        ev[k] = gen_value(rng, k, strings)
    for k in optional_keys:
        ev[k] = gen_value(rng, k, strings)
    return ev


# ---------------------------------------------------------------------------------------------
# reference decoder
# ---------------------------------------------------------------------------------------------

LOG_FLAG_NAMES = {1: 'has_private_data', 2: 'has_subsystem', 4: 'has_rules', 8: 'has_oversize', 0x10: 'has_context_data'}
SIGNPOST_FLAG_NAMES = {**LOG_FLAG_NAMES, 0x80: 'has_name'}
SIGNPOST_TYPE_NAMES = {1: 'interval_begin', 2: 'interval_end', 0x40: 'scope_thread', 0x80: 'scope_process',
                       0xc0: 'scope_system'}


def contained(value, names):
    return sorted(n for v, n in names.items() if value & v == v)


def ref_ti(word):
    ns = word & 0xff
    ty = (word >> 8) & 0xff
    tf = (word >> 16) & 0xff
    fl = (word >> 24) & 0xff
    out = {'namespace': ns, 'type': ty, 'has_current_aid': bool(tf & 1), 'pc_style': (tf >> 1) & 7,
           'has_unique_pid': bool(tf & 0x10), 'has_large_offset': bool(tf & 0x20), 'flags': fl,
           'code': (word >> 32) & 0xffffffff, 'namespace_name': NAMESPACES.get(ns), 'pc_style_name': PC_STYLES[(tf >> 1) & 7]}
    if ns in NS_TYPES:
        out['type_names'] = [NS_TYPES[ns].get(ty)]
    elif ns == 6:
        out['type_names'] = contained(ty, SIGNPOST_TYPE_NAMES)
    out['flag_names'] = contained(fl, LOG_FLAG_NAMES if ns == 4 else SIGNPOST_FLAG_NAMES)
    return out


def ref_segment(seg, inv):
    out = {}
    if 'lp' in seg:
        out['literal_prefix'] = inv[seg['lp']]
    if 'p' in seg:
        p = seg['p']
        ph = {}
        if 'rs' in p:
            ph['raw_string'] = inv[p['rs']]
        if p.get('t'):
            ph['tokens'] = [inv[t] for t in p['t']]
        if 'tn' in p:
            ph['type_namespace'] = inv[p['tn']]
        if 'ty' in p:
            ph['type'] = inv[p['ty']]
        ph['width'] = p['w']
        ph['precision'] = p['p']
        out['placeholder'] = ph
    if 'a' in seg:
        a = seg['a']
        arg = {}
        if 'a' in a:
            arg['availability'] = a['a']
        if 'p' in a:
            arg['privacy'] = a['p']
        if 'c' in a:
            arg['category'] = a['c']
        if a.get('c') == 1:
            if 'sc' in a:
                arg['scalar_category'] = a['sc']
            if 'st' in a:
                arg['scalar_type'] = a['st']
        if ('a' not in a or a['a'] == 3) and 'or' in a:
            arg['object_representation'] = inv[a['or']] if a.get('c') == 2 else a['or']
        out['arg'] = arg
    return out


def ref_dm(dm, inv):
    out = {'placeholder_count': dm['pc'], 'state': dm['s']}
    if dm['pc']:
        out['segments'] = [ref_segment(s, inv) for s in dm['seg']]
    return out


def ref_decode(raw, inv):
    """Expected decoded fields {field: value}; the trace identifier as the ref_ti dict; log_type as its name."""
    exp = dict(DEFAULTS)
    for key, field, kind in MANDATORY + OPTIONAL:
        if key not in raw:
            continue
        v = raw[key]
        if kind == 'str':
            exp[field] = inv[v]
        elif kind == 'raw':
            exp[field] = v
        elif kind == 'date':
            exp[field] = datetime(1970, 1, 1, tzinfo=timezone.utc) + timedelta(seconds=v['sec'], microseconds=v['usec'])
        elif kind == 'tz':
            exp[field] = {'minutes_west': v['mw'], 'dst_time': v['dt']}
        elif kind == 'ti':
            exp[field] = ref_ti(v)
        elif kind == 'logtype':
            exp[field] = LOG_TYPES[v]
        elif kind == 'bt':
            exp[field] = [{'image_uuid': l['iu'], 'image_offset': l['io']} for l in v]
        elif kind == 'lc':
            exp[field] = {'count': v['c'], 'unknown': v['s']}
        elif kind == 'dm':
            exp[field] = ref_dm(v, inv)
    return exp


def observe_ti(ti):
    """Project a decoded TraceIdentifier onto the reference's shape.  type/flags that the decoder left raw or
    undecoded are reported as such."""
    def val(x):
        return x.value if hasattr(x, 'value') else x
    def members(x):
        """Names of the declared members contained in a decoded enum/flag value."""
        import enum
        if isinstance(x, enum.Flag):
            return sorted(m.name for m in type(x).__members__.values() if m.value and (x & m) == m)
        if isinstance(x, enum.Enum):
            return [x.name]
        return None
    return {'namespace': val(ti.namespace), 'type': int(val(ti.type_)), 'has_current_aid': bool(ti.has_current_aid),
            'pc_style': val(ti.pc_style), 'has_unique_pid': bool(ti.has_unique_pid),
            'has_large_offset': bool(ti.has_large_offset),
            'flags': None if ti.flags is None else int(val(ti.flags)), 'code': ti.code,
            'namespace_name': getattr(ti.namespace, 'name', None), 'pc_style_name': getattr(ti.pc_style, 'name', None),
            'type_names': members(ti.type_), 'flag_names': members(ti.flags)}


def compare(decoded, exp):
    """Returns a list of (field, observed, expected) mismatches."""
    bad = []
    for field, want in exp.items():
        if not hasattr(decoded, field):
            bad.append((field, '<no such field>', want))
            continue
        got = getattr(decoded, field)
        if field == 'trace_identifier' and want is not None:
            if got is None:
                bad.append((field, None, want))
                continue
            obs = observe_ti(got)
            for k, w in want.items():
                if k in ('flags', 'flag_names') and obs['flags'] is None:
                    continue  # flag byte not decoded for this namespace: those bits are not covered
                if k in ('type_names', 'flag_names') and obs[k] is None and (not w or any(x is None for x in w)):
                    continue  # a value the format does not define, left as a raw integer by the decoder
                if k == 'flag_names' and obs[k] is None and want.get('namespace') not in (3, 4):
                    continue  # namespaces whose flag byte has no symbolic table
                if obs[k] != w:
                    bad.append((f'trace_identifier.{k}', obs[k], w))
            continue
        if field == 'log_type' and want is not None:
            got = getattr(got, 'name', got)
        if got != want:
            bad.append((field, got, want))
    return bad


_ORDER = random.Random(20261003)


def reordered(obj, how, memo=None):
    """The same plist value with the keys of every dict in another order (a dump's writer need not sort them: binary
    plists written by the kernel side list keys in hash order).  how: 'as-is', 'sorted', 'reversed', 'shuffled'."""
    memo = {} if memo is None else memo          # an object referenced twice stays ONE object in the copy
    if id(obj) in memo:
        return memo[id(obj)]
    if isinstance(obj, dict):
        keys = list(obj)
        if how == 'sorted':
            keys.sort()
        elif how == 'reversed':
            keys.reverse()
        elif how == 'shuffled':
            _ORDER.shuffle(keys)
        out = memo[id(obj)] = {}
        for k in keys:
            out[k] = reordered(obj[k], how, memo)
        return out
    if isinstance(obj, list):
        out = memo[id(obj)] = []
        out.extend(reordered(x, how, memo) for x in obj)
        return out
    return copy.deepcopy(obj)


def fresh(raw):
    """The decoder consumes (pops from) the raw dict: always hand it a deep copy.  The copy lists the keys of every
    dict in one of four orders, in rotation (the meaning of a record does not depend on the order of its keys)."""
    fresh.turn += 1
    return reordered(raw, ('as-is', 'shuffled', 'sorted', 'reversed', 'shuffled')[fresh.turn % 5])


fresh.turn = 0
