"""Tokenizer for rendered traces of the shape `name(p0, p1, ...)[, result]` (C09/C10/C17)."""
import re

NUM_RE = re.compile(r'^(-?\d+|0x[0-9a-fA-F]+)(?: /\*.*\*/)?$')


def split_call(text):
    """Returns (name, [parameter tokens], rest) or None when the text is not of the call shape.
    Respects double quotes, nested parentheses and /* ... */ comments."""
    m = re.match(r'^([A-Za-z_][A-Za-z0-9_]*)\(', text)
    if not m:
        return None
    i = m.end()
    depth = 1
    tokens = []
    cur = []
    in_quote = False
    in_comment = False
    n = len(text)
    while i < n:
        c = text[i]
        if in_quote:
            cur.append(c)
            if c == '"':
                in_quote = False
            i += 1
            continue
        if in_comment:
            cur.append(c)
            if c == '*' and i + 1 < n and text[i + 1] == '/':
                cur.append('/')
                i += 2
                in_comment = False
                continue
            i += 1
            continue
        if c == '"':
            in_quote = True
            cur.append(c)
        elif c == '/' and i + 1 < n and text[i + 1] == '*':
            in_comment = True
            cur.append('/*')
            i += 2
            continue
        elif c == '(':
            depth += 1
            cur.append(c)
        elif c == ')':
            depth -= 1
            if depth == 0:
                tok = ''.join(cur)
                if tok != '' or tokens:
                    tokens.append(tok)
                return m.group(1), tokens, text[i + 1:]
            cur.append(c)
        elif c == ',' and depth == 1 and i + 1 < n and text[i + 1] == ' ':
            tokens.append(''.join(cur))
            cur = []
            i += 2
            continue
        else:
            cur.append(c)
        i += 1
    return None


def numeric_value(token):
    """int value of a numeric-looking token, else None."""
    m = NUM_RE.match(token)
    if not m:
        return None
    s = m.group(1)
    return int(s, 16) if s.lower().startswith('0x') else int(s)


def renderings(word):
    """Every integer a decoder may legitimately show for a 64-bit word: unsigned/signed value of its low
    8/16/32/64 bits."""
    out = set()
    for bits in (8, 16, 32, 64):
        low = word & ((1 << bits) - 1)
        out.add(low)
        out.add(low - (1 << bits) if low >> (bits - 1) else low)
    return out


def call_part(text):
    sc = split_call(text)
    if sc is None:
        return None
    name, tokens, rest = sc
    return text[:len(text) - len(rest)]
