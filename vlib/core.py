"""Core of the verification machinery: contexts, results, verdicts, evidence, findings.

Verdicts are three-valued (held / violated / inconclusive); evidence carries measured numbers only.
"""
import hashlib
import json
import os
import random
import sys
import time
import traceback
from collections import Counter

VERIF_DIR = os.path.dirname(os.path.dirname(os.path.abspath(__file__)))
REPO = os.path.realpath(os.environ.get('VERIF_REPO', '/repo'))
DIGEST_CAP = 60000  # per shard; beyond this distinctness is no longer measured (counted conservatively)


def repo_import_check():
    """Every check must exercise the tree named by VERIF_REPO (default /repo), never an installed copy."""
    import pykdebugparser
    path = os.path.realpath(pykdebugparser.__file__)
    if not path.startswith(REPO + os.sep):
        raise RuntimeError(f'pykdebugparser imported from {path}, expected under {REPO}')
    return path


def digest(obj) -> str:
    if isinstance(obj, bytes):
        data = obj
    else:
        data = repr(obj).encode('utf-8', 'backslashreplace')
    return hashlib.blake2b(data, digest_size=8).hexdigest()


def jsonable(obj, depth=0):
    """Best-effort conversion of a case into something json.dump accepts (bytes -> hex)."""
    if depth > 12:
        return repr(obj)
    if isinstance(obj, (bytes, bytearray)):
        return {'hex': bytes(obj).hex()}
    if isinstance(obj, (str, int, float, bool)) or obj is None:
        return obj
    if isinstance(obj, dict):
        return {str(k): jsonable(v, depth + 1) for k, v in obj.items()}
    if isinstance(obj, (list, tuple, set, frozenset)):
        return [jsonable(v, depth + 1) for v in obj]
    return repr(obj)


def unhex(obj):
    """Inverse of jsonable for the {'hex': ..} convention."""
    if isinstance(obj, dict):
        if set(obj) == {'hex'}:
            return bytes.fromhex(obj['hex'])
        return {k: unhex(v) for k, v in obj.items()}
    if isinstance(obj, list):
        return [unhex(v) for v in obj]
    return obj


class Violation:
    def __init__(self, key, what, case=None):
        self.key = key          # mechanism key (never a hash or a random value)
        self.what = what        # human-readable: expected vs observed
        self.case = case        # replayable case (json-able)

    def to_json(self):
        return {'key': self.key, 'what': self.what, 'case': jsonable(self.case)}

    @classmethod
    def from_json(cls, d):
        return cls(d['key'], d['what'], d.get('case'))


class Inconclusive(Exception):
    pass


class Ctx:
    def __init__(self, prop, tier, seed, shard=0, nshards=1):
        self.prop = prop
        self.tier = tier
        self.seed = seed
        self.shard = shard
        self.nshards = nshards
        self.rng = random.Random(seed * 1000 + shard)
        self.thorough = tier == 'thorough'

    def pick(self, quick, thorough):
        return thorough if self.thorough else quick

    def mine(self, index):
        """Deterministic partition of an enumerated workload over the shards."""
        return index % self.nshards == self.shard


class Result:
    def __init__(self):
        self.counters = Counter()
        self.digests = set()
        self.digest_overflow = 0
        self.samples = []
        self.violations = []
        self.inconclusive = []
        self.assumptions = []
        self.notes = {}
        self.exhaustive = None
        self.requirements = {}

    # -- observation bookkeeping -------------------------------------------------------------
    def case(self, key, nontrivial=True, n=1):
        """Record one explored case. `key` identifies the case for distinct counting."""
        self.counters['evaluations'] += n
        if nontrivial:
            if len(self.digests) < DIGEST_CAP:
                self.digests.add(key if isinstance(key, str) and len(key) == 16 else digest(key))
            else:
                self.digest_overflow += 1

    def sample(self, obj, cap=5):
        if len(self.samples) < cap:
            self.samples.append(jsonable(obj))

    def count(self, name, n=1):
        self.counters[name] += n

    def violation(self, key, what, case=None):
        self.counters['violations_raw'] += 1
        # keep at most a few witnesses per mechanism key, the report needs one
        same = sum(1 for v in self.violations if v.key == key)
        if same < 3 and len(self.violations) < 200:
            self.violations.append(Violation(key, what, case))

    def require(self, name, minimum=1):
        """A monitor/situation class that must have been observed (summed over all shards); otherwise the run is
        inconclusive.  Evaluated after the shards are merged."""
        self.requirements[name] = max(minimum, self.requirements.get(name, 0))

    def evaluate_requirements(self):
        for name, minimum in sorted(self.requirements.items()):
            if self.counters.get(name, 0) < minimum:
                self.inconclusive.append(f'{name}<{minimum} (observed {self.counters.get(name, 0)})')

    # -- shard transport ---------------------------------------------------------------------
    def to_json(self):
        return {
            'counters': dict(self.counters), 'digests': sorted(self.digests),
            'digest_overflow': self.digest_overflow, 'samples': self.samples,
            'violations': [v.to_json() for v in self.violations], 'inconclusive': self.inconclusive,
            'assumptions': self.assumptions, 'notes': jsonable(self.notes), 'exhaustive': self.exhaustive,
            'requirements': self.requirements,
        }

    @classmethod
    def from_json(cls, d):
        r = cls()
        r.counters = Counter(d['counters'])
        r.digests = set(d['digests'])
        r.digest_overflow = d['digest_overflow']
        r.samples = d['samples']
        r.violations = [Violation.from_json(v) for v in d['violations']]
        r.inconclusive = d['inconclusive']
        r.assumptions = d['assumptions']
        r.notes = d['notes']
        r.exhaustive = d['exhaustive']
        r.requirements = d.get('requirements', {})
        return r

    def merge(self, other):
        self.counters.update(other.counters)
        self.digests |= other.digests
        self.digest_overflow += other.digest_overflow
        for s in other.samples:
            if len(self.samples) < 5:
                self.samples.append(s)
        self.violations.extend(other.violations)
        self.inconclusive.extend(other.inconclusive)
        for k, v in other.requirements.items():
            self.requirements[k] = max(v, self.requirements.get(k, 0))
        for a in other.assumptions:
            if a not in self.assumptions:
                self.assumptions.append(a)
        for k, v in other.notes.items():
            if k not in self.notes:
                self.notes[k] = v
            elif isinstance(v, list) and isinstance(self.notes[k], list):
                for x in v:
                    if x not in self.notes[k]:
                        self.notes[k].append(x)
        if other.exhaustive is False or self.exhaustive is None:
            self.exhaustive = other.exhaustive if self.exhaustive is not False else False


# ---------------------------------------------------------------------------------------------
# Known findings
# ---------------------------------------------------------------------------------------------

def load_findings():
    path = os.path.join(VERIF_DIR, 'known_findings.json')
    if not os.path.exists(path):
        return []
    with open(path) as fd:
        return json.load(fd).get('findings', [])


def open_finding_keys(prop):
    return {f['key']: f for f in load_findings() if f.get('status') == 'open' and f.get('property') == prop}


# ---------------------------------------------------------------------------------------------
# Evidence
# ---------------------------------------------------------------------------------------------

def write_evidence(prop, tier, seed, level, rule, result, wall_s, n_violations, extra=None):
    counters = dict(result.counters)
    evaluations = counters.pop('evaluations', 0)
    counters.pop('violations_raw', None)
    coverage = {
        'evaluations': int(evaluations),
        'distinct_nontrivial': len(result.digests),
        'rule': rule + (f' (distinct counting capped: {result.digest_overflow} further non-trivial cases were not '
                        f'tested for distinctness and are not counted)' if result.digest_overflow else ''),
        'samples': result.samples[:5],
        'observed': counters,
    }
    if result.exhaustive is not None:
        coverage['exhaustive'] = bool(result.exhaustive)
    if result.notes:
        coverage['notes'] = jsonable(result.notes)
    if extra:
        coverage.update(extra)
    ev = {
        'property_id': prop, 'tier': tier, 'seed': int(seed), 'level': level, 'coverage': coverage,
        'assumptions': result.assumptions, 'wall_s': round(wall_s, 3), 'violations': int(n_violations),
    }
    if REPO == '/repo':
        path = os.path.join(VERIF_DIR, 'evidence', f'{prop}.json')
    else:
        # a run against a scratch tree (mutation self-test) never overwrites the evidence of the real tree
        os.makedirs(os.path.join(VERIF_DIR, '.work', 'evidence-scratch'), exist_ok=True)
        path = os.path.join(VERIF_DIR, '.work', 'evidence-scratch', f'{prop}.json')
    tmp = path + '.tmp'
    with open(tmp, 'w') as fd:
        json.dump(ev, fd, indent=1, sort_keys=False)
        fd.write('\n')
    os.replace(tmp, path)
    return path


def write_replay(prop, violation, tier, seed):
    d = digest(json.dumps(violation.to_json(), sort_keys=True))
    rdir = os.path.join(VERIF_DIR, 'replays')
    os.makedirs(rdir, exist_ok=True)
    path = os.path.join(rdir, f'{prop}-{d}.json')
    with open(path, 'w') as fd:
        json.dump({'property': prop, 'tier': tier, 'seed': seed, **violation.to_json()}, fd, indent=1)
        fd.write('\n')
    return path


def exc_name(e):
    return type(e).__name__


def short_tb(e, limit=3):
    """Innermost frames of an exception that lie in the repository (for mechanism keys / witnesses)."""
    frames = traceback.extract_tb(e.__traceback__)
    inside = [f for f in frames if '/pykdebugparser/' in f.filename]
    use = inside[-limit:] if inside else frames[-limit:]
    return [f'{os.path.basename(f.filename)}:{f.name}' for f in use]
