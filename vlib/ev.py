"""Event construction and the bundled code table, parsed independently of the repository's parser."""
import os

from vlib import core, wire

_CODES = None
_NAME2IDS = None


def parse_codes_text(text):
    """Reference parser of a trace.codes text: lines 'hex-id name [anything]'; last occurrence of an id wins."""
    out = {}
    for line in text.split('\n'):
        line = line.rstrip('\r')
        fields = line.split()
        if len(fields) < 2:
            continue
        tok = fields[0]
        if tok[:2] in ('0x', '0X'):
            tok = tok[2:]
        out[int(tok, 16)] = fields[1]
    return out


def bundled_codes():
    global _CODES, _NAME2IDS
    if _CODES is None:
        with open(os.path.join(core.REPO, 'pykdebugparser', 'trace.codes'), 'r') as fd:
            _CODES = parse_codes_text(fd.read())
        _NAME2IDS = {}
        for k, v in _CODES.items():
            _NAME2IDS.setdefault(v, []).append(k)
    return _CODES


def name2ids():
    bundled_codes()
    return _NAME2IDS


def eid(name):
    """Event id of a bundled name (first id under which the table lists it)."""
    ids = name2ids().get(name)
    if not ids:
        raise KeyError(name)
    return ids[0]


def Kevent():
    from pykdebugparser.kevent import Kevent as K
    return K


def mk(ts, code, qual, args=(0, 0, 0, 0), tid=1, cpuid=0):
    """Build a repository Kevent from an explicit 64-byte record through the reference decode (keyword
    construction: independent of the tuple's field order and of from_kd_buf)."""
    eventid = eid(code) if isinstance(code, str) else code
    rec = wire.record(ts, args, tid, (eventid & 0xfffffffc) | qual, cpuid)
    return Kevent()(**wire.ref_decode(rec))


def mk_rec(ts, code, qual, args=(0, 0, 0, 0), tid=1, cpuid=0):
    eventid = eid(code) if isinstance(code, str) else code
    return wire.record(ts, args, tid, (eventid & 0xfffffffc) | qual, cpuid)


def from_rec(rec):
    return Kevent()(**wire.ref_decode(rec))


def new_parser(codes=None, threads_pids=None, pids_names=None):
    from pykdebugparser.traces_parser import TracesParser
    return TracesParser(dict(bundled_codes()) if codes is None else codes,
                        {} if threads_pids is None else threads_pids,
                        {} if pids_names is None else pids_names)


def ev_brief(e):
    """Compact printable form of an event for witnesses and samples."""
    codes = bundled_codes()
    name = codes.get(e.eventid, hex(e.eventid))
    q = ('NONE', 'START', 'END', 'ALL')[e.func_qualifier]
    return f'{e.timestamp}:{name}:{q}:tid{e.tid}:{",".join(hex(v) for v in e.values)}'


def ev_to_case(e):
    return {'ts': e.timestamp, 'eventid': e.eventid, 'qual': e.func_qualifier, 'data': e.data, 'tid': e.tid}


def ev_from_case(c):
    data = c['data']
    return mk(c['ts'], c['eventid'], c['qual'], data, c['tid'])


REAL_FAULT_IDS = set(range(0x1320008, 0x1320018, 4))     # hard-coded in the page-fault decoder: never re-labelled


def relabel(events, rng):
    """The same capture under a supplied code table that lists names under SEVERAL ids (as the bundled table itself does
    for some names): every id that occurs gets one to three new ids (sometimes next to the original), listed in random
    order somewhere in the table, and every record picks one of the ids of its name - the END and the continuation
    records of a START keep the START's choice (they pair by id).  Returns (events, table); what is decoded must read
    the same as under the bundled ids."""
    bundled = bundled_codes()
    used = sorted({e.eventid for e in events if e.eventid not in REAL_FAULT_IDS})
    free = [i for i in range(0x60000000, 0x60000000 + 4 * (len(used) + 1) * 8, 4) if i not in bundled]
    rng.shuffle(free)
    fan = {}
    for old in used:
        fan[old] = [free.pop() for _ in range(rng.choice((1, 2, 3)))] + ([old] if rng.random() < 0.5 else [])
    pairs = [(new, bundled[old]) for old, news in fan.items() if old in bundled for new in news]
    rng.shuffle(pairs)
    rest = [(k, v) for k, v in bundled.items() if k not in fan]
    cut = rng.randrange(len(rest) + 1)
    table = dict(rest[:cut] + pairs + rest[cut:])
    out, open_choice = [], {}
    for e in events:
        if e.eventid not in fan:
            out.append(e)
            continue
        key = (e.tid, e.eventid)
        if e.func_qualifier in (0, 2) and key in open_choice:
            chosen = open_choice[key]
            if e.func_qualifier == 2:
                del open_choice[key]
        else:
            chosen = rng.choice(fan[e.eventid])
            if e.func_qualifier == 1:
                open_choice[key] = chosen
        out.append(mk(e.timestamp, chosen, e.func_qualifier, e.data, e.tid))
    return out, table


def alias_within_class(events, rng):
    """Like relabel(), but every additional id of a name lies in the SAME class as the original (same top byte) - in the
    same subclass under another code, or in another subclass: a table merged from two releases of the kernel.  Class and
    subclass filters are statements about ids, so the capture is a different one; what is decoded from a record is not."""
    bundled = bundled_codes()
    used = sorted({e.eventid for e in events if e.eventid not in REAL_FAULT_IDS and e.eventid in bundled})
    taken = set(bundled)
    fan = {}
    for old in used:
        news = []
        for _ in range(rng.choice((1, 1, 2))):
            for _attempt in range(200):
                sub = (old >> 16) & 0xff if rng.random() < 0.4 else rng.randrange(256)
                new = (old & 0xff000000) | (sub << 16) | (rng.randrange(1, 0x3fff) << 2)
                if new not in taken and new not in REAL_FAULT_IDS:
                    taken.add(new)
                    news.append(new)
                    break
        fan[old] = news + [old]
    pairs = [(new, bundled[old]) for old, news in fan.items() for new in news if new != old]
    rng.shuffle(pairs)
    rest = list(bundled.items())
    cut = rng.randrange(len(rest) + 1)
    table = dict(rest[:cut] + pairs + rest[cut:])
    out, open_choice = [], {}
    for e in events:
        if e.eventid not in fan:
            out.append(e)
            continue
        key = (e.tid, e.eventid)
        if e.func_qualifier in (0, 2) and key in open_choice:
            chosen = open_choice[key]
            if e.func_qualifier == 2:
                del open_choice[key]
        else:
            chosen = rng.choice(fan[e.eventid])
            if e.func_qualifier == 1:
                open_choice[key] = chosen
        out.append(mk(e.timestamp, chosen, e.func_qualifier, e.data, e.tid))
    return out, table


def permuted(events_lists, rng):
    """The same captures under a supplied table that gives the ids in use to OTHER names in use (a rotation of the ids
    among the decodable names that occur): what a release that renumbers its calls looks like next to the bundled
    table in one process.  Returns ([events lists], table)."""
    bundled = bundled_codes()
    used = sorted({e.eventid for evs in events_lists for e in evs if e.eventid in bundled and e.eventid not in REAL_FAULT_IDS})
    if len(used) < 2:
        return events_lists, dict(bundled)
    shift = rng.randrange(1, len(used))
    pi = {old: used[(i + shift) % len(used)] for i, old in enumerate(used)}
    table = dict(bundled)
    for old, new in pi.items():
        table[new] = bundled[old]
    out = [[mk(e.timestamp, pi.get(e.eventid, e.eventid), e.func_qualifier, e.data, e.tid) for e in evs] for evs in events_lists]
    return out, table
