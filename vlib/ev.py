"""Event construction and the bundled code table, parsed independently of the repository's parser."""
import os

from vlib import core, wire

_CODES = None
_NAME2IDS = None


def parse_codes_text(text):
    """Reference parser of a trace.codes text: lines 'hex-id name [anything]'; last occurrence of an id wins."""
    out = {}
    for line in text.split('\n'):
        line = line.rstrip('\r')
        fields = line.split()
        if len(fields) < 2:
            continue
        tok = fields[0]
        if tok[:2] in ('0x', '0X'):
            tok = tok[2:]
        out[int(tok, 16)] = fields[1]
    return out


def bundled_codes():
    global _CODES, _NAME2IDS
    if _CODES is None:
        with open(os.path.join(core.REPO, 'pykdebugparser', 'trace.codes'), 'r') as fd:
            _CODES = parse_codes_text(fd.read())
        _NAME2IDS = {}
        for k, v in _CODES.items():
            _NAME2IDS.setdefault(v, []).append(k)
    return _CODES


def name2ids():
    bundled_codes()
    return _NAME2IDS


def eid(name):
    """Event id of a bundled name (first id under which the table lists it)."""
    ids = name2ids().get(name)
    if not ids:
        raise KeyError(name)
    return ids[0]


def Kevent():
    from pykdebugparser.kevent import Kevent as K
    return K


def mk(ts, code, qual, args=(0, 0, 0, 0), tid=1, cpuid=0):
    """Build a repository Kevent from an explicit 64-byte record through the reference decode (keyword
    construction: independent of the tuple's field order and of from_kd_buf)."""
    eventid = eid(code) if isinstance(code, str) else code
    rec = wire.record(ts, args, tid, (eventid & 0xfffffffc) | qual, cpuid)
    return Kevent()(**wire.ref_decode(rec))


def mk_rec(ts, code, qual, args=(0, 0, 0, 0), tid=1, cpuid=0):
    eventid = eid(code) if isinstance(code, str) else code
    return wire.record(ts, args, tid, (eventid & 0xfffffffc) | qual, cpuid)


def from_rec(rec):
    return Kevent()(**wire.ref_decode(rec))


def new_parser(codes=None, threads_pids=None, pids_names=None):
    from pykdebugparser.traces_parser import TracesParser
    return TracesParser(dict(bundled_codes()) if codes is None else codes,
                        {} if threads_pids is None else threads_pids,
                        {} if pids_names is None else pids_names)


def ev_brief(e):
    """Compact printable form of an event for witnesses and samples."""
    codes = bundled_codes()
    name = codes.get(e.eventid, hex(e.eventid))
    q = ('NONE', 'START', 'END', 'ALL')[e.func_qualifier]
    return f'{e.timestamp}:{name}:{q}:tid{e.tid}:{",".join(hex(v) for v in e.values)}'


def ev_to_case(e):
    return {'ts': e.timestamp, 'eventid': e.eventid, 'qual': e.func_qualifier, 'data': e.data, 'tid': e.tid}


def ev_from_case(c):
    data = c['data']
    return mk(c['ts'], c['eventid'], c['qual'], data, c['tid'])
