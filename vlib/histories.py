"""Hostile event-history generators: kernel-shaped scenario templates, omission/repetition/nesting
transformations, order-preserving interleavers and a ddmin shrinker (DESIGN.md 3.2).

An abstract event is (code, qualifier, payload) where code is a bundled name or a numeric event id and payload
is 4 words or 32 data bytes.  materialize() assigns thread ids and strictly increasing timestamps.
"""
from vlib import ev, wire, domain

NONE, START, END, ALL = 0, 1, 2, 3


def A(code, qual, payload=(0, 0, 0, 0)):
    return (code, qual, payload)


_CLOCK = [None]


def set_clock(rng):
    """Opt-in for checks whose oracles do not identify events by their timestamp: the time base of a dump is coarse, so
    consecutive records may share a tick.  With a clock set, materialize() draws per call: strictly increasing (60 %),
    runs of 2-3 records per tick (20 %), one tick for the whole call (20 %).  File order, never time, is the order."""
    _CLOCK[0] = rng


def materialize(items, t0=1000, step=7):
    """items: [(tid, abstract event)] -> [Kevent] with increasing timestamps (strictly, unless a clock is set)."""
    out = []
    ts = t0
    mode = 0
    if _CLOCK[0] is not None and step:
        c = _CLOCK[0].random()
        mode = 0 if c < 0.5 else 1 if c < 0.65 else 2 if c < 0.8 else 3
    for i, (tid, (code, qual, payload)) in enumerate(items):
        if mode == 3:
            # per-CPU clocks are not perfectly aligned and buffers are merged record by record: a record may be stamped
            # a few ticks EARLIER than the record before it (also than the START of its window).  Never below t0 - 30.
            jt = ts + _CLOCK[0].randrange(-30, 31)
            jt += (jt & 0xff) == 0          # (a v2 dump whose first record begins with a zero byte is finding F02's class)
            out.append(ev.mk(jt, code, qual, payload, tid))
            ts += step
            continue
        out.append(ev.mk(ts, code, qual, payload, tid))
        if mode == 0 or (mode == 1 and i % 3 == 2):
            ts += step
    return out


def on_thread(tid, abstract):
    return [(tid, a) for a in abstract]


# ---------------------------------------------------------------------------------------------
# decoder inventory
# ---------------------------------------------------------------------------------------------

_INV = None


def inventory():
    """Observed decoder table of the real parser, split by kind."""
    global _INV
    if _INV is None:
        from pykdebugparser.trace_handlers.trace import handlers as trace_handlers
        parser = ev.new_parser()
        names = sorted(parser.handlers)
        n2i = ev.name2ids()
        decodable = [n for n in names if n in n2i]
        codes = ev.bundled_codes()
        undecoded = sorted({v for v in codes.values() if v not in parser.handlers})
        _INV = {
            'handlers': names,
            'decodable': decodable,
            'trace_domain': sorted(n for n in trace_handlers if n in n2i),
            'bsd': [n for n in decodable if n.startswith('BSC_')],
            'mach_traps': [n for n in decodable if n.startswith('MSC_')],
            'undecoded_sample': [n for n in ('RealFaultAddressPurgeable', 'VFS_LOOKUP_DONE', 'MACH_vm_page_release',
                                             'PMAP_flush_TLBS', 'BSC_pread_extended_info', 'TRACE_INFO_STRING')
                                 if n in n2i] or undecoded[:5],
            'unknown_ids': [0xfe000000, 0x2a040000, 0x99990004, 0x07000014, 0x07010018, 0x0701ff00, 0x07000000],
        }
    return _INV


# ---------------------------------------------------------------------------------------------
# templates
# ---------------------------------------------------------------------------------------------

def lookup(vnode_id, path: bytes, word=8):
    return [A('VFS_LOOKUP', q, d) for q, d in wire.lookup_chunks(vnode_id, path, word)]


def syscall(name, start_words, end_words, nested=()):
    return [A(name, START, start_words)] + list(nested) + [A(name, END, end_words)]


def gen_syscall(rng, name, nested=(), error=None):
    s = domain.gen_words(rng, name, 'S')
    e = domain.gen_words(rng, name, 'E')
    if name.startswith('BSC_'):     # word 0 of a BSD syscall's END record is the error number
        if error is not None:
            e[0] = error
        elif rng.random() < 0.6:
            e[0] = 0
        else:
            e[0] = rng.choice((1, 2, 9, 13, 22, 35, 60, 106, 107, 4000))
    return syscall(name, s, e, nested)


def global_string(str_id, text: bytes, debugid=0x1f080000, word=8):
    return [A('TRACE_STRING_GLOBAL', q, d) for q, d in wire.global_string_chunks(debugid, str_id, text, word)]


def thread_name(text: bytes, prev=False, word=8):
    code = 'TRACE_STRING_THREADNAME_PREV' if prev else 'TRACE_STRING_THREADNAME'
    return [A(code, q, d) for q, d in wire.simple_string_chunks(text[:64], word)]


def name32(text: bytes, word=8):
    """A process name as one record carries it (word=4: as a kernel with 4-byte words lays it out, 16 name bytes, the upper
    half of every argument word zero - see wire._words)."""
    if word == 4:
        return wire._words(text[:16].decode('utf-8', 'ignore').encode(), 4, 4)   # cut on a character boundary
    t = text[:32]
    return t + b'\x00' * (32 - len(t))


def newthread_pair(new_tid, pid, name: bytes, qual=NONE, uniqueid=7, word=8):
    return [A('TRACE_DATA_NEWTHREAD', NONE, (new_tid, pid, 0, uniqueid)),
            A('TRACE_STRING_NEWTHREAD', qual, name32(name, word))]


def exec_pair(pid, name: bytes, qual=NONE, word=8):
    return [A('TRACE_DATA_EXEC', NONE, (pid, 0x1000004, 0x55, 0)), A('TRACE_STRING_EXEC', qual, name32(name, word))]


def dlopen(str_id, flags=0x2, handle=0x7000, pre=0x11):
    return [A('DBG_DYLD_TIMING_DLOPEN', START, (pre, str_id, flags, 0)),
            A('DBG_DYLD_TIMING_DLOPEN', END, (0, handle, 0, 0))]


def dlsym(handle, str_id, address=0x1234):
    return [A('DBG_DYLD_TIMING_DLSYM', START, (0, handle, str_id, 0)),
            A('DBG_DYLD_TIMING_DLSYM', END, (0, address, 0, 0))]


def map_image(str_id):
    return [A('DBG_DYLD_TIMING_MAP_IMAGE', START, (0, str_id, 0, 0)), A('DBG_DYLD_TIMING_MAP_IMAGE', END, (0, 0, 0, 0))]


def dlopen_preflight(str_id, compatible=1):
    return [A('DBG_DYLD_TIMING_DLOPEN_PREFLIGHT', START, (0, str_id, 0, 0)),
            A('DBG_DYLD_TIMING_DLOPEN_PREFLIGHT', END, (0, compatible, 0, 0))]


REAL_FAULT = {'internal': 'RealFaultAddressInternal', 'external': 'RealFaultAddressExternal',
              'shared': 'RealFaultAddressSharedCache', 'purgeable': 'RealFaultAddressPurgeable'}


def real_fault(kind, vaddr, prot, ftype, pid, tag=0, offset=0x40):
    return A(REAL_FAULT[kind], NONE, (vaddr, (tag << 16) | (prot << 8) | ftype, offset, pid))


def page_fault(addr, is_kernel, result, ftype, nested=()):
    return ([A('MACH_vmfault', START, (0x55, addr, is_kernel, 0))] + list(nested)
            + [A('MACH_vmfault', END, (0, 0, result, ftype))])


def uuid_record(code, uuid16: bytes, load_addr, fsid=0x1000004):
    return A(code, NONE, uuid16 + wire.u(load_addr, 8) + wire.u(fsid, 8))


def launch(mh, nested=()):
    return ([A('DBG_DYLD_TIMING_LAUNCH_EXECUTABLE', START, (0, mh, 0, 0))] + list(nested)
            + [A('DBG_DYLD_TIMING_LAUNCH_EXECUTABLE', END, (0, 0, 0, 0))])


def sampler(sample_what, actionid, nested=(), end_words=(0, 0, 0, 0)):
    return ([A('PERF_Event', START, (sample_what, actionid, 0, 0))] + list(nested)
            + [A('PERF_Event', END, end_words)])


def thd_data(pid, tid, dq=0, runmode=1):
    return A('PERF_THD_Data', NONE, (pid, tid, dq, runmode))


_SPARE = [None]


def set_spare(rng):
    """Opt-in: words of a record that the property gives no meaning to (the third and fourth word of a callstack header)
    are no longer written as zeros but drawn: 0, a small count, a sentinel, a random word.  A decoder that starts to read
    such a word changes what the property pins down."""
    _SPARE[0] = rng


def spare():
    rng = _SPARE[0]
    if rng is None:
        return 0
    c = rng.random()
    if c < 0.3:
        return 0
    if c < 0.7:
        return rng.randrange(1, 9)
    if c < 0.8:
        return rng.choice(domain.SENTINEL_WORDS)
    return rng.getrandbits(rng.choice((8, 32, 64)))


def stk_uhdr(flags, nframes):
    return A('PERF_STK_UHdr', NONE, (flags, nframes, spare(), spare()))


def stk_udata(frames):
    frames = list(frames) + [0] * (4 - len(frames))
    return A('PERF_STK_UData', NONE, frames[:4])


# header counts: the count is a full 64-bit argument word ("header count above/below the data supplied")
# Scale rungs: the number of records one START..END window holds (START and END included) / of threads / of entries.
# A limit somebody hard-codes is most likely a power of two or of ten; 2^16 is the one every "reasonable cap" starts
# from, so the quick tier steps over it record by record (a cap may be off by one in either direction and may count the
# START, the END, both or neither), and the thorough tier continues to 10^5, 2^17 and 2^18.
def _around(t):
    # T-2 .. T+2, and one size clearly beyond the threshold (a cap may act only when a later record arrives)
    return tuple(t + d for d in (-2, -1, 0, 1, 2)) + (t + t // 16 + 7,)


SCALE_RUNGS_QUICK = (4095, 4096, 5000) + _around(1 << 16) + _around(1 << 20)
SCALE_RUNGS_THOROUGH = SCALE_RUNGS_QUICK + (16384, 20000) + _around(100000) + _around(1 << 17) + ((1 << 18) + 1,) + \
    _around(10 ** 6) + _around(1 << 21) + ((1 << 22) + 1,)
# (2^20 records of one thread inside one call is a 64 MiB capture - a long sleep on a busy thread; the ladder ends at
# 2^22 + 1: a cap beyond that is not covered.  Windows this long are built from 97 filler record OBJECTS repeated by
# reference, all on the tick of the record before them - see stretched_events.)

HEADER_COUNT_BOUNDARIES = ((1 << 31) - 1, 1 << 31, (1 << 32) - 1, 1 << 32, (1 << 32) + 1, (1 << 32) + 2, (1 << 63) + 1,
                           (1 << 64) - 1)


def reposition(rng, nested, codes=('PERF_STK_UHdr', 'PERF_THD_Data')):
    """Move the records of the given codes to random positions; the other records keep their relative order."""
    movable = [a for a in nested if a[0] in codes]
    rest = [a for a in nested if a[0] not in codes]
    for a in movable:
        rest.insert(rng.randrange(len(rest) + 1), a)
    return rest


def unrelated(rng, k=1):
    """Same-thread records unrelated to any template: known-but-undecoded and unknown codes, plus simple decodable
    NONE-qualified records."""
    inv = inventory()
    out = []
    for _ in range(k):
        c = rng.random()
        if c < 0.4:
            out.append(A(rng.choice(inv['undecoded_sample']), rng.choice((NONE, NONE, START, END, ALL)),
                         [domain.rng_word(rng) for _ in range(4)]))
        elif c < 0.6:
            out.append(A(rng.choice(inv['unknown_ids']), rng.choice((NONE, START, END, ALL)),
                         [domain.rng_word(rng) for _ in range(4)]))
        else:
            name = rng.choice(('MACH_SCHED', 'MACH_WAIT', 'DecrSet', 'MACH_MKRUNNABLE', 'PERF_THD_CSwitch',
                               'TURNSTILE_thread_removed_from_turnstile_waitq'))
            out.append(A(name, NONE, domain.gen_single(rng, name)))
    return out


def window_filler(rng, n):
    """Exactly n same-thread records of the ordinary pairing domain (nothing of the kernel trace class, which pairs among
    itself, no ENDs), so that a window around them holds exactly n more records."""
    base = []
    while len(base) < 97:
        for a in unrelated(rng, 97):
            code = a[0]
            # (an END without an open START is not part of anybody's window either)
            # ... and nothing a composite decoder looks for inside its window (real-fault records of any kind)
            cid = ev.eid(code) if isinstance(code, str) else code
            if (cid >> 24) != 7 and a[1] != END and cid not in ev.REAL_FAULT_IDS:
                base.append(a)
    base = base[:97]
    return (base * (n // 97 + 1))[:n]


def stretched_events(seq, where, n_total, rng, tid=6, t0=5000, wide=False):
    """The abstract window `seq` (START first, END last) as events, stretched to exactly n_total records by filler
    records inserted before position `where`.  The filler is 97 distinct record objects repeated by reference (a
    window of a million records then costs a list of references, not a million objects); they carry the tick of the
    record before them (coarse clock).  Returns (events, ids of the window's own events)."""
    base = materialize([(tid, a) for a in seq], t0=t0, step=7)
    k = max(0, n_total - len(base))
    tick = base[where - 1].timestamp if where else t0
    if wide:
        # nesting WIDTH instead of length: k STARTs of k distinct ids that never end (application signposts, ids no
        # table lists), i.e. k windows open at once on the thread while the call is in flight
        table = ev.bundled_codes()
        ids = (i for i in range(0x21000000, 0x21000000 + 8 * k + 64, 4) if i not in table)
        filler = [ev.mk(tick, next(ids), START, (j, 0, 0, 0), tid) for j in range(k)]
    else:
        objs = [ev.mk(tick, code, qual, payload, tid) for code, qual, payload in window_filler(rng, 97)]
        filler = (objs * (k // 97 + 1))[:k]
    return base[:where] + filler + base[where:], {id(e) for e in base}


NAMING = ('MACH_BLOCK', 'MACH_DISPATCH', 'MACH_MKRUNNABLE', 'MACH_SCHED', 'MACH_WAIT', 'PERF_THD_CSwitch', 'PERF_THD_Data',
          'TRACE_DATA_EXEC', 'TRACE_DATA_NEWTHREAD', 'TRACE_DATA_THREAD_TERMINATE', 'TRACE_DATA_THREAD_TERMINATE_PID')


def naming_words(rng, name, tid, pid, k=0):
    """In-domain words of a single-record decoder whose free words name a given thread and process."""
    w = domain.gen_single(rng, name)
    spec = domain.TABLE.get(name, {})
    for idx in range(4):
        if ('S', idx) not in spec and ('E', idx) not in spec:
            w[idx] = (tid, pid, tid, pid, pid, tid, pid, tid)[idx + 4 * k]
    return w


def census_nested():
    """[(decodable name D, code id X)]: every code of the bundled table once as a record nested in a call window - in the
    window of the decoder whose name its own name extends where there is one (BSC_mmap_extended_info inside BSC_mmap,
    MACH_SCHED_LOAD next to MACH_SCHED ...: the records a kernel really logs inside that call), else in the window of a
    BSD syscall picked by the code's number."""
    inv = inventory()
    table = ev.bundled_codes()
    dec = sorted(inv['decodable'], key=len, reverse=True)
    bsd = sorted(inv['bsd'])
    out = []
    for cid in sorted(table):
        name = table[cid]
        host = next((d for d in dec if d.startswith('BSC_') and name != d and
                     (name.startswith(d) or name.startswith(d.replace('BSC_', 'BSC_sys_', 1)))), None)
        out.append((host or bsd[(cid >> 2) % len(bsd)], cid))
    return out


def chunk_safe(path: bytes):
    """True when every kernel chunk of the path is valid UTF-8 on its own (no character straddles a record
    boundary), i.e. every lookup record is individually well-formed text."""
    try:
        for _, d in wire.lookup_chunks(0, path):
            d[8:].rstrip(b'\x00').decode('utf-8') if _ & START else d.rstrip(b'\x00').decode('utf-8')
    except UnicodeDecodeError:
        return False
    return True


# every path here is chunk-safe: histories drop/duplicate single records, and each record must stay valid text
PATHS = [b'/', b'/usr/lib/dyld', b'/System/Library/CoreServices/WiFiAgent.app/Contents/_CodeSignature', b'a', b'',
         b'/private/var/db/caf\xc3\xa9/xy\xe6\x97\xa5\xe6\x9c\xac.plist', b'x' * 24, b'y' * 25, b'z' * 56, b'w' * 57,
         b'/Users/u/Library/Application Support/com.example.app/Cache.db-wal/longer/than/eighty-eight/bytes/of/path',
         '/Applications/Cafe\u0301.app/\u212b'.encode(), '/tmp/\U0001f34e/\ufb01le'.encode()]
assert all(chunk_safe(p) for p in PATHS)

ONE_PATH_CALLS = ['BSC_open', 'BSC_stat64', 'BSC_access', 'BSC_unlink', 'BSC_chdir', 'BSC_mkdir', 'BSC_openat',
                  'BSC_getattrlist', 'BSC_lstat64', 'BSC_readlink', 'BSC_chmod', 'BSC_open_nocancel']
TWO_PATH_CALLS = ['BSC_rename', 'BSC_link', 'BSC_exchangedata', 'BSC_mount', 'BSC_clonefileat']
NO_GUARD_CALLS = ['BSC_posix_spawn', 'BSC_renameat', 'BSC_symlinkat', 'BSC_fs_snapshot', 'BSC_linkat',
                  'BSC_renameatx_np', 'BSC_pivot_root']


def path_syscall(rng, name=None, n_lookups=None, error=None, interleave_unrelated=True):
    name = name or rng.choice(ONE_PATH_CALLS + TWO_PATH_CALLS + NO_GUARD_CALLS)
    if n_lookups is None:
        n_lookups = rng.choice((0, 1, 1, 2, 2, 3, 6))
    nested = []
    for _ in range(n_lookups):
        if interleave_unrelated and rng.random() < 0.3:
            nested += unrelated(rng)
        nested += lookup(rng.getrandbits(48), rng.choice(PATHS))
    return gen_syscall(rng, name, nested, error)


# decoders that read or write the by-design shared tables with arbitrary (argument-chosen) keys
SHARED_TABLE_DECODERS = {'PERF_THD_Data', 'TRACE_DATA_NEWTHREAD', 'TRACE_DATA_THREAD_TERMINATE',
                         'TRACE_DATA_THREAD_TERMINATE_PID', 'TRACE_DATA_EXEC', 'DBG_DYLD_TIMING_DLOPEN',
                         'DBG_DYLD_TIMING_DLOPEN_PREFLIGHT', 'DBG_DYLD_TIMING_DLSYM', 'DBG_DYLD_TIMING_MAP_IMAGE',
                         'PERF_Event'}


def scenario(rng, ctxs, kinds=None, private_keys=False):
    """One complete kernel-shaped sequence for one thread.  ctxs: per-thread key space {'sid': base string id,
    'pid': base pid, 'tid': the thread} so that by-design shared tables use disjoint keys across threads."""
    inv = inventory()
    kind = rng.choice(kinds or ('syscall', 'syscall', 'path', 'path', 'newthread', 'exec', 'threadname', 'gstring',
                                'fault', 'sampler', 'launch', 'single', 'single', 'terminate'))
    if kind == 'syscall':
        name = rng.choice(inv['bsd'] + inv['mach_traps'])
        nested = unrelated(rng, rng.randrange(0, 3))
        return gen_syscall(rng, name, nested)
    if kind == 'path':
        return path_syscall(rng)
    if kind == 'newthread':
        child = ctxs['tid'] * 1000 + rng.randrange(1, 9) if 'child_pool' not in ctxs else rng.choice(ctxs['child_pool'])
        return newthread_pair(child, ctxs['pid'] + rng.randrange(0, 3),
                              rng.choice(domain.TEXTS)[:32], rng.choice((NONE, ALL)))
    if kind == 'exec':
        pair = exec_pair(ctxs['pid'] + rng.choice((0, 0, 1, 2)), rng.choice(domain.TEXTS)[:32], rng.choice((NONE, ALL)))
        if rng.random() < 0.5:
            # the usual shape: the pair sits inside the window of the execve() / posix_spawn() call that caused it
            name = rng.choice(('BSC_execve', 'BSC_posix_spawn'))
            nested = (lookup(rng.getrandbits(40), rng.choice(PATHS)) if rng.random() < 0.5 else []) + pair
            return gen_syscall(rng, name, nested)
        return pair
    if kind == 'threadname':
        return thread_name(rng.choice(domain.TEXTS) * rng.choice((1, 1, 3)), prev=rng.random() < 0.3)
    if kind == 'gstring':
        sid = ctxs['sid'] + rng.randrange(1, 5)
        text = rng.choice(PATHS + [b'_symbol_name', b'libSystem.B.dylib'])
        consumer = rng.choice((dlopen, map_image, dlopen_preflight, lambda s: dlsym(0x10, s)))
        return global_string(sid, text) + consumer(sid)
    if kind == 'fault':
        nested = []
        for _ in range(rng.randrange(0, 3)):
            nested.append(real_fault(rng.choice(('internal', 'external', 'shared', 'purgeable')), rng.getrandbits(40),
                                     rng.randrange(256), rng.randrange(1, 12), ctxs['pid']))
            nested += unrelated(rng, rng.randrange(0, 2))
        result = rng.choice((0, 0, 1, 4))
        return page_fault(rng.getrandbits(40), rng.randrange(2), result, rng.randrange(1, 12), nested)
    if kind == 'sampler':
        what = rng.choice((0x1, 0x8, 0x9, 0x0, 0x19, 0x3fff))
        nested = []
        if rng.random() < 0.7:
            nested.append(thd_data(ctxs['pid'], ctxs['tid'], 0, rng.randrange(128)))
        if rng.random() < 0.7:
            n = rng.randrange(0, 10)
            nested.append(stk_uhdr(rng.randrange(512), rng.choice((n, n + 2, max(0, n - 1)))))
            frames = [rng.getrandbits(47) for _ in range(n)]
            for i in range(0, n, 4):
                nested.append(stk_udata(frames[i:i + 4]))
        return sampler(what, rng.randrange(10), nested)
    if kind == 'launch':
        nested = []
        for _ in range(rng.randrange(0, 5)):
            nested.append(uuid_record(rng.choice(('DYLD_uuid_map_a', 'DYLD_uuid_shared_cache_a')), rng.randbytes(16),
                                      rng.getrandbits(40)))
            nested += unrelated(rng, rng.randrange(0, 2))
        return launch(rng.getrandbits(40), nested)
    if kind == 'terminate':
        return [A('TRACE_DATA_THREAD_TERMINATE', NONE, (ctxs['tid'], 0, 0, 0)),
                A('TRACE_DATA_THREAD_TERMINATE_PID', NONE, (ctxs['pid'], 9, 0, 0))]
    # single NONE/ALL event of any decodable code that does not need a window
    name = rng.choice([n for n in inv['decodable'] if n not in domain.TEXT_PAYLOAD
                       and not (private_keys and n in SHARED_TABLE_DECODERS)])
    return [A(name, rng.choice((NONE, ALL)), domain.gen_single(rng, name))]


# ---------------------------------------------------------------------------------------------
# hostile transformations
# ---------------------------------------------------------------------------------------------

def drop_prefix(seq, k):
    return seq[k:]


def drop_one(seq, k):
    return seq[:k] + seq[k + 1:]


def duplicate_one(seq, k):
    return seq[:k + 1] + [seq[k]] + seq[k + 1:]


def nest_into(outer, inner, pos):
    return outer[:pos] + inner + outer[pos:]


def hostile_variants(rng, seq, limit=None):
    """Every dropped prefix, every single dropped record, some duplications."""
    out = []
    for k in range(1, len(seq) + 1):
        out.append(('drop_prefix', drop_prefix(seq, k)))
    for k in range(len(seq)):
        out.append(('drop_one', drop_one(seq, k)))
    for k in range(len(seq)):
        out.append(('duplicate', duplicate_one(seq, k)))
    if limit is not None and len(out) > limit:
        out = rng.sample(out, limit)
    return out


# ---------------------------------------------------------------------------------------------
# interleavings
# ---------------------------------------------------------------------------------------------

def count_interleavings(lengths, cap=10 ** 30):
    """Multinomial coefficient, computed incrementally; values beyond `cap` are reported as `cap` (thousands of threads
    would otherwise cost seconds of big-number arithmetic for a number nobody reads)."""
    from math import comb
    n, placed = 1, 0
    for l in lengths:
        placed += l
        n *= comb(placed, l)
        if n > cap:
            return cap
    return n


def all_interleavings(programs):
    """Every order-preserving merge of the per-thread programs: yields lists of (thread index, position)."""
    idx = [0] * len(programs)
    total = sum(len(p) for p in programs)
    cur = []

    def rec():
        if len(cur) == total:
            yield list(cur)
            return
        for t in range(len(programs)):
            if idx[t] < len(programs[t]):
                cur.append((t, idx[t]))
                idx[t] += 1
                yield from rec()
                idx[t] -= 1
                cur.pop()
    yield from rec()


def random_interleaving(rng, programs):
    idx = [0] * len(programs)
    out = []
    live = [t for t in range(len(programs)) if programs[t]]
    while live:
        t = rng.choice(live)
        out.append((t, idx[t]))
        idx[t] += 1
        if idx[t] == len(programs[t]):
            live.remove(t)
    return out


def round_robin(programs, reverse=False):
    idx = [0] * len(programs)
    out = []
    order = list(range(len(programs)))
    if reverse:
        order.reverse()
    while any(idx[t] < len(programs[t]) for t in order):
        for t in order:
            if idx[t] < len(programs[t]):
                out.append((t, idx[t]))
                idx[t] += 1
    return out


# ---------------------------------------------------------------------------------------------
# shrinking
# ---------------------------------------------------------------------------------------------

def ddmin(items, fails, max_tests=400):
    """Delta debugging: smallest sub-list (order kept) on which `fails` still returns True."""
    tests = 0
    n = 2
    items = list(items)
    while len(items) >= 2 and tests < max_tests:
        chunk = max(1, len(items) // n)
        reduced = False
        for i in range(0, len(items), chunk):
            cand = items[:i] + items[i + chunk:]
            tests += 1
            if cand and fails(cand):
                items = cand
                n = max(n - 1, 2)
                reduced = True
                break
        if not reduced:
            if n >= len(items):
                break
            n = min(len(items), n * 2)
    return items
