"""Cold-start concurrency: `python -m vlib.coldstart <cases.json>` decodes the given windows on several OS threads at once
in a FRESH interpreter - every thread with its own parser, all threads the same windows in the same order, released by
a barrier, switch interval one microsecond - so that whatever the library builds lazily on first use (a member list, a
lookup table, a compiled pattern) is built while another thread already reads it.  Prints {thread: [[texts per case]]}.
The parent compares with what a warm single-threaded run renders (vlib/stream.run_cold)."""
import json
import sys
import threading


def main(path):
    with open(path) as fd:
        job = json.load(fd)
    from vlib import core, ev, histories as H
    core.repo_import_check()
    ev.bundled_codes()                      # the harness's own lazy cache is filled before the threads start
    n = job.get('threads', 4)
    cases = [[(c, q, bytes.fromhex(p['hex']) if isinstance(p, dict) else tuple(p)) for c, q, p in seq] for seq in job['cases']]
    events = [[H.materialize([(6 + k, a) for a in seq], t0=5000) for seq in cases] for k in range(n)]
    from pykdebugparser.traces_parser import TracesParser       # imported, never used before the barrier opens
    out = {}
    barrier = threading.Barrier(n)

    def worker(k):
        texts = []
        try:
            barrier.wait(timeout=30)
            parser = TracesParser(dict(ev.bundled_codes()), {}, {})
            for evs in events[k]:
                got = []
                for e in evs:
                    t = parser.feed(e)
                    if t is not None:
                        got.append(str(t))
                texts.append(got)
        except Exception as x:                                   # noqa
            texts.append([f'<raised {type(x).__name__}: {x}>'])
        out[str(k)] = texts
    threads = [threading.Thread(target=worker, args=(k,), daemon=True) for k in range(n)]
    sys.setswitchinterval(1e-6)
    for t in threads:
        t.start()
    for t in threads:
        t.join(timeout=120)
    sys.setswitchinterval(0.005)
    json.dump(out, sys.stdout)


if __name__ == '__main__':
    main(sys.argv[1])
