"""In-process interference: before a check's own workload starts, the library is used the way *other* callers in
the same process might use it - parsers with empty / reduced / renamed code tables, filtered and repeated requests,
decoders called on values that share parts with later ones.  Nothing is judged here; the point is that state left
behind (class attributes, module-level caches, shared default objects) is in place when the oracles run."""
import io
import random


def warm_up():
    try:
        _warm_up()
        return True
    except Exception:
        return False


def _warm_up():
    import plistlib
    from vlib import ev, wire, gen, logs, histories as H
    from pykdebugparser.traces_parser import TracesParser
    from pykdebugparser.pykdebugparser import PyKdebugParser
    from pykdebugparser.kevent import from_kd_buf
    from pykdebugparser.os_log_event import OsLogEvent
    from pykdebugparser.trace_handlers import bsd, mach, perf, dyld
    rng = random.Random(987654321)
    codes = ev.bundled_codes()
    events = gen.gen_scenario_events(rng, n_scenarios=9)
    events += H.materialize(H.on_thread(11, H.syscall('BSC_ioctl', (3, 0xc0087413, 0, 0), (0, 0, 0, 0))
                                          + H.syscall('BSC_ioctl', (3, 0xc00c7413, 0, 0), (0, 0, 0, 0))
                                          + H.syscall('BSC_fchmod', (3, 0o100644, 0, 0), (0, 0, 0, 0))
                                          + H.syscall('BSC_fchmod', (3, 0o644, 0, 0), (0, 0, 0, 0))
                                          + H.syscall('BSC_read_nocancel', (3, 4, 5, 6), (35, 0, 0, 0))), t0=0x300000001)
    tables = [{}, {k: v for k, v in codes.items() if v.endswith('_nocancel')}, {k: 'X' + v for k, v in codes.items()},
              {k | 2: v for k, v in list(codes.items())[:200]}, dict(codes)]
    for t in tables:
        p = TracesParser(t, {}, {})
        for e in events:
            try:
                tr = p.feed(e)
                if tr is not None:
                    str(tr)
            except Exception:
                pass
    # another caller customises ITS objects: it edits the public tables and lists of a parser and of a front end of its
    # own in place (replaces and removes decoders, clears the qualifier table, appends to the filter lists, writes the
    # process tables) and shallow-copies a configured front end.  Objects built afterwards are none of its business.
    import copy
    mine = TracesParser(dict(codes), {}, {})
    for attr in ('handlers', 'qualifiers_actions', 'trace_codes', 'global_strings', 'tids_names', 'on_going_events',
                 'on_going_traces', 'last_data_newthread', 'last_data_exec'):
        table = getattr(mine, attr, None)
        if isinstance(table, dict):
            for i, k in enumerate(list(table)):
                if i % 3 == 0:
                    table[k] = (lambda *a, **kw: None) if attr in ('handlers', 'qualifiers_actions') else 'edited by another caller'
                elif i % 3 == 1:
                    del table[k]
            table['added-by-another-caller'] = lambda *a, **kw: None
    theirs = PyKdebugParser()
    for attr, value in vars(theirs).items():
        if isinstance(value, list):
            value.extend([0x77, 0x7777])
        elif isinstance(value, dict):
            value[0x77] = 'edited by another caller'
    clone = copy.copy(theirs)
    clone.filter_tid, clone.filter_process = 0x7777, 'another-caller'
    # ... and does arithmetic with the library's public enum classes (a | b, a & b, ~a on Flag classes caches composite
    # members in the class; membership tests, iteration, lookups by value and by name on the plain ones)
    import enum
    import itertools
    from pykdebugparser.trace_handlers import fsystem, trace, turnstile
    for module in (bsd, mach, perf, dyld, fsystem, trace, turnstile):
        for obj in list(vars(module).values()):
            if isinstance(obj, type) and issubclass(obj, enum.Enum) and obj.__module__ == module.__name__:
                members = list(obj.__members__.values())[:12]
                if issubclass(obj, enum.Flag):
                    for a, b in itertools.combinations(members, 2):
                        try:
                            (a | b, a & b, ~a, a ^ b)
                        except Exception:
                            pass
                    try:
                        mask = members[0]
                        for m in members:
                            mask |= m
                        obj(mask.value)
                        ~mask
                    except Exception:
                        pass
                for m in members:
                    try:
                        obj(m.value), obj[m.name], m in obj
                    except Exception:
                        pass
    data = wire.v2_file(gen.threadmap_for(events), 8, gen.events_to_records(events))
    front = PyKdebugParser()
    for cfg in (([4], []), ((4, 7), (0x301,)), ([], [0x40c]), ([], [])):
        front.filter_class, front.filter_subclass = cfg
        for fn in (front.traces, front.formatted_traces, front.callstacks, front.formatted_kevents):
            try:
                list(fn(io.BytesIO(data), tables[1] if cfg[0] == [4] else None))
            except Exception:
                pass
    front.filter_process = 'proc0'
    try:
        list(front.traces(io.BytesIO(data)))
    except Exception:
        pass
    strings = logs.Strings(rng)
    raws = [logs.gen_event(rng, strings, ['p', 'pid', 'ti', 'dm']) for _ in range(4)]
    low = raws[0]['ti'] & 0xffffffff
    raws[1]['ti'] = low | (7 << 32)
    for raw in raws:
        try:
            OsLogEvent.from_raw_log_event(logs.fresh(raw), strings.inverted())
        except Exception:
            pass
    f3 = wire.V3Spec(entries=[(5, 6, b'x', b'')], chunks=[gen.events_to_records(events)[:3]], blocks=[
        (wire.TAG_LOG_EVENTS, plistlib.dumps({'Events': raws}, fmt=plistlib.FMT_BINARY)),
        (wire.TAG_LOG_STRINGS, plistlib.dumps(strings.plist(), fmt=plistlib.FMT_BINARY))]).build()
    try:
        list(PyKdebugParser().os_log_events(io.BytesIO(f3)))
    except Exception:
        pass
    for v in (0o100644, 0o644, 0o60755, 0):
        bsd.serialize_stat_flags(v)
    for v in (0x41, 0x1000a02, 3, 0):
        bsd.serialize_open_flags(v)
    mach.to_ast_reasons(0)
    mach.to_vm_prot(0)
    perf.to_sampler_action(0x9)
    dyld.to_rtld_flags(0x102)
    from_kd_buf(wire.record(1 << 60, (1, 2, 3, 4), 5, 0x40c0004 | 1, 0, 0))
