"""Generators of dump files (thread maps, records, v2 files, v3 specs) with their models."""
import plistlib

from vlib import wire, logs

NAMES = [b'kernel_task', b'launchd', b'Safari', b'tccd', b'a', b'', b'caf\xc3\xa9', b'\xe6\x97\xa5\xe6\x9c\xac',
         b'x' * 19, b'\xc3\xa9' * 9, b'proc with space', b'p(1)', b'wifid', b'mDNSResponder', b'0123456789abcdefghi',
         # the same text has several Unicode spellings and the dump's own spelling is the one to report: decomposed
         # (e + U+0301), compatibility characters (ANGSTROM SIGN, the fi ligature), four-byte characters, case pairs
         'Cafe\u0301'.encode(), '\u212bngstro\u0308m'.encode(), '\ufb01le\u2126'.encode(), 'app\U0001f34e'.encode(),
         'Stra\u00dfe'.encode(), '\u0130stanbul'.encode()]


def gen_threadmap(rng, n=None, small_keys=True):
    """[(tid, pid, name, junk)] with duplicate tids and pids, multi-byte names, junk after the NUL."""
    if n is None:
        n = rng.choice((0, 0, 1, 2, 3, 5, 8, 13, 40))
    tids = [rng.choice((rng.randrange(1, 12), rng.getrandbits(64), rng.getrandbits(20))) for _ in range(max(1, n // 2 + 1))]
    pids = [rng.choice((rng.randrange(0, 8), rng.getrandbits(32), rng.getrandbits(12))) for _ in range(max(1, n // 3 + 1))]
    out = []
    for _ in range(n):
        tid = rng.choice(tids) if rng.random() < 0.5 else rng.choice((rng.randrange(1, 50), rng.getrandbits(64)))
        pid = rng.choice(pids) if rng.random() < 0.5 else rng.choice((rng.randrange(0, 50), rng.getrandbits(32)))
        name = rng.choice(NAMES)
        if rng.random() < 0.3:
            name = (name + b'%d' % rng.randrange(100))[:19]
            name = name.decode('utf-8', 'ignore').encode('utf-8')
        junk = rng.randbytes(rng.randrange(0, 20)) if rng.random() < 0.5 else b''
        out.append((tid, pid, name, junk))
    return out


def gen_record(rng, kind=None):
    kind = kind or rng.choice(('random', 'random', 'random', 'zero', 'zero_lead', 'ones', 'structured'))
    if kind == 'random':
        return rng.randbytes(64)
    if kind == 'zero':
        return bytes(64)
    if kind == 'zero_lead':
        k = rng.randrange(1, 64)
        return bytes(k) + bytes([rng.randrange(1, 256)]) + rng.randbytes(63 - k)
    if kind == 'ones':
        return b'\xff' * 64
    return wire.record(rng.getrandbits(48), [rng.getrandbits(rng.choice((8, 32, 64))) for _ in range(4)],
                       rng.randrange(1, 20), rng.getrandbits(32), rng.randrange(8), 0)


def nonzero_lead(rec):
    """Variant of a record whose first byte is non-zero (first record of a v2 file, see finding F02)."""
    return rec if rec[0] else b'\x01' + rec[1:]


def gen_records(rng, m=None, first_nonzero=True):
    if m is None:
        m = rng.choice((0, 1, 2, 3, 5, 17, 64, 200))
    recs = [gen_record(rng) for _ in range(m)]
    if recs and first_nonzero:
        recs[0] = nonzero_lead(recs[0])
    return recs


PADS = (0, 0, 1, 7, 8, 63, 64, 65, 128)


def gen_pad(rng, entries):
    c = rng.random()
    if c < 0.6:
        return rng.choice(PADS)
    if c < 0.8:
        base = 4 + 4 + 12 + 4 + 8 + 0x100 + 32 * len(entries)
        return -base % 4096  # page fill, as the kernel writes it
    return rng.randrange(0, 5000)


def gen_v2(rng, first_nonzero=True, m=None, n=None):
    entries = gen_threadmap(rng, n)
    pad = gen_pad(rng, entries)
    recs = gen_records(rng, m, first_nonzero)
    fill = rng.choice((b'\x00', b'\xff', rng.randbytes(17)))
    data = wire.v2_file(entries, pad, recs, hdr_fill=fill, is_64bit=rng.choice((0, 1)), tick=rng.getrandbits(40))
    return {'kind': 'v2', 'entries': entries, 'pad': pad, 'records': recs, 'data': data}


# ---------------------------------------------------------------------------------------------
# version 3
# ---------------------------------------------------------------------------------------------

def gen_filler(rng, maxlen=200):
    """Random filler containing partial prefixes of every marker the scanner looks for."""
    n = rng.choice((0, 0, 3, 8, 16, rng.randrange(0, maxlen)))
    parts = []
    while sum(map(len, parts)) < n:
        c = rng.random()
        if c < 0.25:
            parts.append(wire.STACKSHOT_END[:rng.randrange(1, 16)])
        elif c < 0.45:
            parts.append(wire.TAG_THREADMAP[:rng.randrange(1, 8)])
        elif c < 0.6:
            parts.append(wire.TAG_EVENTS[:rng.randrange(1, 8)])
        elif c < 0.7:
            parts.append(bytes(rng.randrange(1, 9)))
        else:
            parts.append(rng.randbytes(rng.randrange(1, 24)))
    return b''.join(parts)[:n] if n else b''


def decoy_sections(rng):
    """Bytes that look like complete later sections (a thread-map section and an events chunk holding whole records):
    a stackshot is an opaque blob and may contain any of them before its end marker."""
    tm = b''.join(wire.threadmap_entry(0x7000 + i, 0x70 + i, b'decoy%d' % i) for i in range(rng.randrange(0, 3)))
    recs = [gen_record(rng, 'structured') for _ in range(rng.randrange(1, 4))]
    out = rng.randbytes(rng.randrange(0, 9)) + wire.TAG_THREADMAP + wire.u(len(tm), 8) + tm
    out += rng.randbytes(rng.randrange(0, 9)) + wire.TAG_EVENTS + wire.u(64 * len(recs), 8) + bytes(8) + b''.join(recs)
    if rng.random() < 0.5:
        out += wire.TAG_MORE_EVENTS
    return out


def gen_cpu_info(rng):
    return rng.choice(({'cpus': rng.randrange(1, 64)}, {}, {'a': [1, 2, {'b': b'\x00\x01'}], 'name': 'AppleT8103'},
                       {'n': rng.getrandbits(40), 's': 'x' * rng.randrange(0, 40)}))


def split_chunks(rng, records, k=None):
    """Split a record sequence into 1..k chunks (empty chunks allowed)."""
    k = k or rng.choice((1, 1, 2, 3, 5))
    cuts = sorted(rng.randrange(0, len(records) + 1) for _ in range(k - 1))
    chunks, prev = [], 0
    for c in cuts + [len(records)]:
        chunks.append(records[prev:c])
        prev = c
    return chunks


# A code-table section is text and the embedded table is that text, character for character: nothing at its start, its end
# or in the middle is a signature, a terminator or padding to a UTF-8 reader (U+FEFF is the character a "signature-aware"
# codec drops, NUL / U+FFFE / U+FFFD / surrogates-by-escape are what a "tolerant" one rewrites, CR LF / U+2028 / U+0085 what
# a text-mode reader translates).
CODE_TEXT_EDGES = ('\ufeff', '\ufeff\ufeff', '\ufffe', '\ufffd', '\x00', '\r\n', '\r', '\n', '\u2028', '\x85', '\x1a', ' ', '\t',
                   '\ufeff0x1\tBOM_FIRST\n', '#', '\\ufeff', '\U0001f600', 'e\u0301', '\ufb01', '\x7f', '\xa0')


def code_table_text(rng, txt):
    c = rng.random()
    if c < 0.45:
        return txt
    if c < 0.65:
        return rng.choice(CODE_TEXT_EDGES) + txt
    if c < 0.8:
        return txt + rng.choice(CODE_TEXT_EDGES)
    if c < 0.9:
        k = rng.randrange(0, len(txt) + 1)
        return txt[:k] + rng.choice(CODE_TEXT_EDGES) + txt[k:]
    return ''.join(rng.choice(CODE_TEXT_EDGES) for _ in range(rng.randrange(1, 5)))


def gen_blocks(rng, strings=None, n_logs=None, entries=()):
    """Random additional-data blocks.  Returns (blocks [(tag, payload)], model dict)."""
    strings = strings or logs.Strings(rng)
    model = {'trace_codes': '', 'kexts': [], 'dyld': None, 'processes': {}, 'images': {}, 'logs': []}
    blocks = []
    fmt = lambda: rng.choice((plistlib.FMT_BINARY, plistlib.FMT_BINARY, plistlib.FMT_XML))
    pending = []
    for _ in range(rng.randrange(0, 3)):
        bins = [{'name': f'com.apple.kext{rng.randrange(1000)}', 'addr': rng.getrandbits(40)} for _ in range(rng.randrange(0, 4))]
        pending.append(('kext', bins))
    for _ in range(rng.randrange(0, 3)):
        bins = [{'path': f'/usr/lib/lib{rng.randrange(1000)}.dylib', 'uuid': rng.randbytes(16)} for _ in range(rng.randrange(0, 4))]
        pending.append(('dyld', bins))
    for _ in range(rng.randrange(0, 3)):
        txt = ''.join(f'0x{rng.getrandbits(32):x}\tCODE_{rng.randrange(10000)}\n' for _ in range(rng.randrange(0, 4)))
        pending.append(('codes', code_table_text(rng, txt)))
    if rng.random() < 0.5:
        pending.append(('processes', {'Processes': [{'pid': rng.randrange(1000), 'name': 'p%d' % rng.randrange(50)}
                                                    for _ in range(rng.randrange(0, 4))]}))
    if rng.random() < 0.5:
        pending.append(('images', {'Images': {'uuid%d' % i: '/path/%d' % rng.randrange(99) for i in range(rng.randrange(0, 4))}}))
    nlog_blocks = rng.randrange(0, 3) if n_logs is None else (1 if n_logs else 0)
    log_raw_blocks = []
    for _ in range(nlog_blocks):
        evs = []
        for _ in range(rng.randrange(0, 4) if n_logs is None else n_logs):
            keys = [k for k in logs.OPTIONAL_KEYS if k != 'tai' and rng.random() < 0.35]
            raw = logs.gen_event(rng, strings, keys)
            if 'dm' in raw:
                for seg in raw['dm'].get('seg', []):
                    if 'a' in seg and 'c' not in seg['a']:
                        seg['a']['c'] = 0     # C03 stays clear of the C16 findings (argument without category)
            if 'ti' in raw:
                raw['ti'] = logs.pack_ti(4, rng.choice((0, 1, 2, 0x10, 0x11)), rng.randrange(64),
                                         rng.randrange(32), rng.getrandbits(32))
            # a record of a thread that the thread map (or an earlier record) already attributes to the same pid, under
            # another process name: the process called exec, or the 20-byte map field holds a cut name
            known = [(e[0], e[1]) for e in entries if e[0]] + [(r['tid'], r.get('pid', 0)) for b in log_raw_blocks for r in b
                                                               if r.get('tid')] + [(r['tid'], r.get('pid', 0)) for r in evs if r.get('tid')]
            if known and rng.random() < 0.35:
                raw['tid'], raw['pid'] = rng.choice(known)
                raw['p'] = strings.idx(rng.choice(('ls', 'renamed-by-exec', 'a-process-name-longer-than-the-map-field', 'sh')))
            # a binary plist stores an object once and every reference to it loads as the SAME Python object: records
            # (and fields of one record) of one block may share their time-zone / message / backtrace dictionaries
            if evs and rng.random() < 0.4:
                donor = rng.choice(evs)
                for k in ('utz', 'dm', 'bt'):
                    if k in donor and k in raw and rng.random() < 0.7:
                        raw[k] = donor[k]
            if rng.random() < 0.3:
                for k in ('lsutz', 'leutz'):
                    if k in raw and rng.random() < 0.7:
                        raw[k] = raw['utz']
            evs.append(raw)
        log_raw_blocks.append(evs)
        pending.append(('logs', evs))
    for _ in range(rng.randrange(0, 3)):
        pending.append(('unknown', rng.randbytes(rng.randrange(0, 40))))
    rng.shuffle(pending)
    # the string index must follow no particular order either, but exactly one is emitted (dict-valued)
    have_logs = any(k == 'logs' for k, _ in pending)
    if have_logs or rng.random() < 0.3:
        pending.insert(rng.randrange(0, len(pending) + 1), ('strings', None))
    for kind, val in pending:
        if kind == 'kext':
            blocks.append((wire.TAG_KEXTS, plistlib.dumps({'Binaries': val, 'Other': 1}, fmt=fmt())))
            model['kexts'].extend(val)
        elif kind == 'dyld':
            d = {'Binaries': val, 'Arch': 'arm64e'}
            blocks.append((wire.TAG_DYLD_MODULES, plistlib.dumps(d, fmt=fmt())))
            if model['dyld'] is None:
                model['dyld'] = {'Binaries': list(val), 'Arch': 'arm64e'}
            else:
                model['dyld']['Binaries'].extend(val)
        elif kind == 'codes':
            blocks.append((wire.TAG_TRACE_CODES, val.encode()))
            model['trace_codes'] += val
        elif kind == 'processes':
            blocks.append((wire.TAG_PROCESSES, plistlib.dumps(val, fmt=fmt())))
            model['processes'] = val
        elif kind == 'images':
            blocks.append((wire.TAG_IMAGES, plistlib.dumps(val, fmt=fmt())))
            model['images'] = val
        elif kind == 'logs':
            blocks.append((wire.TAG_LOG_EVENTS, ('logs', val)))   # serialised after the string table is complete
            model['logs'].extend(val)
        elif kind == 'strings':
            blocks.append((wire.TAG_LOG_STRINGS, ('strings', None)))
        else:
            tag = bytes([rng.randrange(0x20, 0x7f), 0x80, 0, 0, 0, 0, 0, 0])
            if rng.random() < 0.5:
                # a NEAR MISS of a known section: its tag word under another sub tag, its sub tag under another tag word,
                # one byte off - a section is what its whole 8-byte tag says
                known = rng.choice(sorted(wire.KNOWN_BLOCK_TAGS))
                tag = rng.choice((known[:4] + bytes([(known[4] + rng.choice((1, 2, 255))) % 256]) + known[5:],
                                  known[:4] + bytes([known[4], 0, 0, rng.choice((1, 0x80))]),
                                  bytes([known[0], known[1], 0, rng.choice((1, 0x80))]) + known[4:],
                                  bytes([known[0], known[1] ^ 0x01]) + known[2:]))
            if tag in wire.KNOWN_BLOCK_TAGS:
                tag = bytes([0x7f, 0x80, 0, 0, 0, 0, 0, 0])
            blocks.append((tag, val))
    final = []
    for tag, payload in blocks:
        if isinstance(payload, tuple):
            if payload[0] == 'logs':
                # (half of the dumps list the keys of their records unsorted, in a shuffled order)
                unsorted = rng.random() < 0.5
                payload = plistlib.dumps({'Events': logs.reordered(payload[1], 'shuffled') if unsorted else payload[1]},
                                         fmt=plistlib.FMT_BINARY, sort_keys=not unsorted)
            else:
                payload = plistlib.dumps(strings.plist(), fmt=plistlib.FMT_BINARY)
        final.append((tag, payload))
    model['strings'] = strings.inverted()
    return final, model


def gen_v3(rng, m=None, n=None, with_blocks=True, chunks=None, decoys=None):
    entries = gen_threadmap(rng, n)
    recs = gen_records(rng, m, first_nonzero=False)
    chunks = split_chunks(rng, recs) if chunks is None else chunks
    blocks, model = gen_blocks(rng, entries=entries) if with_blocks else ([], None)
    decoys = rng.random() < 0.3 if decoys is None else decoys
    clean = lambda f, *needles: wire.sanitize_filler(f, *needles)
    spec = wire.V3Spec(
        cpu_info=gen_cpu_info(rng),
        header_kw={'numer': rng.randrange(1, 1000), 'denom': rng.randrange(1, 1000), 'timestamp': rng.getrandbits(48),
                   'wall_secs': rng.randrange(1 << 31), 'wall_usecs': rng.randrange(1000000),
                   'tz_minuteswest': rng.randrange(0, 720), 'tz_dst': rng.randrange(2), 'flags': rng.getrandbits(8)},
        pre_stackshot=clean(gen_filler(rng) + (decoy_sections(rng) + gen_filler(rng, 40) if decoys else b''), wire.STACKSHOT_END),
        pre_threadmap=clean(gen_filler(rng), wire.TAG_THREADMAP),
        entries=entries,
        threadmap_tail=b'' if rng.random() < 0.8 else rng.randbytes(rng.randrange(1, 12)),
        chunks=chunks,
        chunk_fillers=[clean(gen_filler(rng, 60), wire.TAG_EVENTS) for _ in chunks],
        blocks=blocks,
        last_block_padded=rng.random() < 0.6,
    )
    for attempt in range(20):
        try:
            data = spec.build()
            break
        except AssertionError:
            # a filler happened to complete a marker together with its surroundings: redraw the fillers
            spec.pre_stackshot = clean(gen_filler(rng), wire.STACKSHOT_END)
            spec.pre_threadmap = clean(gen_filler(rng), wire.TAG_THREADMAP)
            spec.chunk_fillers = [b'' for _ in chunks]
    else:
        raise RuntimeError('could not build an unambiguous v3 file')
    return {'kind': 'v3', 'entries': entries, 'records': recs, 'spec': spec, 'data': data, 'model': model}


# ---------------------------------------------------------------------------------------------
# decodable content: records produced from kernel-shaped scenarios (for the trace/format pipelines)
# ---------------------------------------------------------------------------------------------

def gen_scenario_events(rng, n_scenarios=6, tids=(11, 12, 13), complete=True, t0=0x100000001):
    """Events of several scenario templates on a few threads, interleaved order-preservingly."""
    from vlib import histories as H
    programs = []
    for k, tid in enumerate(tids):
        keyspace = {'tid': tid, 'pid': 100 * (k + 1), 'sid': 1000 * (k + 1)}
        prog = []
        for _ in range(max(1, n_scenarios // len(tids))):
            prog += H.scenario(rng, keyspace)
        programs.append(prog)
    order = H.random_interleaving(rng, programs)
    items = [(tids[t], programs[t][i]) for t, i in order]
    return H.materialize(items, t0=t0)


def events_to_records(events):
    return [wire.record(e.timestamp, e.data, e.tid, e.debugid, cpuid=i % 4) for i, e in enumerate(events)]


def threadmap_for(events, rng=None, undeclared=()):
    """A thread map declaring the threads that occur in the events (except those listed as undeclared)."""
    tids = []
    for e in events:
        if e.tid not in tids and e.tid not in undeclared:
            tids.append(e.tid)
    return [(tid, 100 + i, b'proc%d' % i, b'') for i, tid in enumerate(tids)]
