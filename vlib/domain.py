"""'Individually well-formed' argument domains per decoder (DESIGN.md 3.2).

The table states, as literal ranges typed from Darwin's headers, the values the decoders themselves name for
enum-valued words.  Everything not listed is an arbitrary 64-bit word.  Keys: decoder name -> {(which, index):
spec} where which is 'S' (first event of the window) or 'E' (last event), spec is a list of allowed values or a
callable rng -> value.
"""
from vlib import darwin_ref as D

U64 = (1 << 64) - 1


# Small negative numbers as the kernel records them (an int argument is sign- or zero-extended into the 64-bit slot):
# Darwin's interfaces give several of them a meaning (AT_FDCWD = -2, an invalid descriptor -1, MAP_FAILED, lengths of
# -1 ...).  A decoder that starts naming one of them takes a branch no random 64-bit word ever reaches.
SENTINEL_WORDS = tuple((-k) & 0xffffffff for k in range(1, 9)) + tuple((-k) & ((1 << 64) - 1) for k in range(1, 9)) + \
    tuple(((-k) & 0xffffffff) | (1 << 32) for k in (1, 2, 3)) + \
    ((1 << 61) - 1, 1 << 61, 2 * ((1 << 61) - 1) + 1, 3 * ((1 << 61) - 1) + 64)     # == 0, 1, 1, 64 modulo Python's hash modulus


def rng_word(rng):
    c = rng.random()
    if c > 0.94:
        return rng.choice(SENTINEL_WORDS)
    if c < 0.25:
        return rng.randrange(0, 300)
    if c < 0.45:
        return rng.getrandbits(32)
    if c < 0.55:
        return rng.choice((0, 1, 0x7fffffff, 0x80000000, 0xffffffff, 1 << 63, U64, U64 - 1, 1 << 32))
    return rng.getrandbits(64)


def distinct_words(rng, n=4):
    """Words pairwise distinct under every rendering (unsigned/signed decimal, hex, of low 8/16/32/64 bits)."""
    out = []
    while len(out) < n:
        w = rng.getrandbits(64) | (1 << 62)
        w = (w & ~0xff) | rng.randrange(0x11, 0xf0)
        lows = {(x & 0xff) for x in out} | {((x >> 8) & 0xff) for x in out}
        if (w & 0xff) in lows or ((w >> 8) & 0xff) in lows:
            continue
        out.append(w)
    return out


FCNTL_CMDS = list(range(0, 11)) + list(range(40, 46)) + list(range(48, 86)) + list(range(90, 106))


def ioctl_request(rng):
    direction = rng.choice((0x20000000, 0x40000000, 0x80000000, 0xc0000000, 0xe0000000))
    length = rng.choice((0, 1, 4, 8, 0xfff, 0x1000, 0x1001, 0x1fff, rng.randrange(0x2000)))
    group = rng.randrange(0x20, 0x7f)
    num = rng.randrange(256)
    return direction | (length << 16) | (group << 8) | num


def realfault_word(rng):
    ftype = rng.randrange(1, 12)
    prot = rng.randrange(256)
    tag = rng.getrandbits(16)
    return (tag << 16) | (prot << 8) | ftype


def rusage_who(rng):
    return rng.choice((0, 0xffffffff, U64, 0xffffffff00000000))


SOL_SOCKET_DARWIN = 0xffff


def sockopt_level(rng):
    return rng.choice((SOL_SOCKET_DARWIN, 0, 6, 17, 41, 1, rng.getrandbits(16)))


TABLE = {
    'BSC_csops': {('S', 1): list(range(0, 17))},
    'BSC_csops_audittoken': {('S', 1): list(range(0, 17))},
    'BSC_fs_snapshot': {('S', 0): list(range(1, 7))},
    'BSC_getpriority': {('S', 0): list(range(0, 7))},
    'BSC_setpriority': {('S', 0): list(range(0, 7))},
    'BSC_getrusage': {('S', 0): rusage_who},
    'BSC_ioctl': {('S', 1): ioctl_request},
    'BSC_proc_info': {('S', 0): list(range(1, 16))},
    'BSC_sigaction': {('S', 0): list(range(1, 32))},
    'BSC_sigprocmask': {('S', 0): [1, 2, 3]},
    'BSC_socket': {('S', 0): sorted(D.AF), ('S', 1): sorted(D.SOCK)},
    'BSC_socket_delegate': {('S', 0): sorted(D.AF), ('S', 1): sorted(D.SOCK)},
    'BSC_socketpair': {('S', 0): sorted(D.AF), ('S', 1): sorted(D.SOCK)},
    'BSC_sys_fcntl': {('S', 1): FCNTL_CMDS},
    'BSC_sys_fcntl_nocancel': {('S', 1): FCNTL_CMDS},
    'BSC_setsockopt': {('S', 1): sockopt_level},
    'BSC_getsockopt': {('S', 1): sockopt_level},
    'INTERRUPT': {('S', 3): list(range(0, 5))},
    'MACH_IDLE': {('E', 1): list(range(0, 7)), ('S', 1): list(range(0, 7))},
    'MSC_mach_port_allocate_trap': {('S', 1): list(range(0, 6))},
    'MSC_mach_port_mod_refs_trap': {('S', 2): list(range(0, 6))},
    'MSC_mach_port_insert_right_trap': {('S', 3): list(range(16, 23))},
    'MSC_mach_port_get_attributes_trap': {('S', 2): list(range(1, 8))},
    'MSC_mk_timer_arm_leeway': {('S', 1): [0, 1]},
    'MSC_thread_switch': {('S', 1): list(range(0, 6))},
    'MSC_semaphore_timedwait_trap': {('E', 0): list(range(0, 54)), ('S', 0): list(range(0, 54))},
    'RealFaultAddressInternal': {('S', 1): realfault_word, ('E', 1): realfault_word},
    'RealFaultAddressExternal': {('S', 1): realfault_word, ('E', 1): realfault_word},
    'RealFaultAddressSharedCache': {('S', 1): realfault_word, ('E', 1): realfault_word},
    'TURNSTILE_turnstile_prepare': {('S', 2): list(range(0, 10))},
    'TURNSTILE_turnstile_complete': {('S', 2): list(range(0, 10))},
}
# note: a real-fault record is a stand-alone record; when a history gives it an END qualifier the page-fault decoder may
# still meet it as the first real-fault record of a window, so its END words are in-domain too.
# note: for MACH_IDLE / semaphore_timedwait the decoder reads the *last* event of its window; when the window is
# a single event that is also the first one, hence the ('S', i) duplicates.

SOCKOPT_NAMES = sorted(D.SO_OPTIONS)

# decoders whose payload is text (must be valid UTF-8 once NULs are stripped)
TEXT_PAYLOAD = {'TRACE_STRING_NEWTHREAD', 'TRACE_STRING_EXEC', 'TRACE_STRING_PROC_EXIT', 'TRACE_STRING_THREADNAME',
                'TRACE_STRING_THREADNAME_PREV', 'VFS_LOOKUP', 'TRACE_STRING_GLOBAL'}

TEXTS = [b'launchd', b'/usr/lib/dyld', b'Safari', b'caf\xc3\xa9', b'', b'a', b'kernel_task', b'com.apple.main-thread',
         b'\xe6\x97\xa5\xe6\x9c\xac\xe8\xaa\x9e', b'x' * 24, b'/private/var/db/file.plist',
         b'a-name-that-fills-all-32-bytes!!', b'thirty-two-bytes-ending-in-\xc3\xa9\xc3\xa9z',      # these two: exactly 32 bytes
         'Cafe\u0301 \u212b \ufb01le'.encode(), 'app\U0001f34e\u0130'.encode()]     # spellings that normalisation / case mapping change
assert all(len(t) <= 32 for t in TEXTS)


def text32(rng, maxlen=32):
    t = rng.choice(TEXTS)[:maxlen]
    t = t.decode('utf-8', 'ignore').encode('utf-8')
    return t + b'\x00' * (32 - len(t))


def gen_words(rng, name, which):
    """Four in-domain words for the first ('S') or last ('E') event of a window of decoder `name`."""
    words = [rng_word(rng) for _ in range(4)]
    spec = TABLE.get(name, {})
    for (w, idx), s in spec.items():
        if w != which:
            continue
        words[idx] = s(rng) if callable(s) else rng.choice(s)
    if name in ('BSC_setsockopt', 'BSC_getsockopt') and which == 'S' and words[1] == SOL_SOCKET_DARWIN:
        words[2] = rng.choice(SOCKOPT_NAMES)
    if name == 'MACH_vmfault' and which == 'E':
        if rng.random() < 0.6:
            words[2] = 0
        if words[2] == 0:
            words[3] = rng.randrange(1, 12)
    return words


def gen_single(rng, name):
    """In-domain words for an event that is both first and last of its window (NONE/ALL qualified)."""
    words = gen_words(rng, name, 'S')
    spec = TABLE.get(name, {})
    for (w, idx), s in spec.items():
        if w == 'E' and ('S', idx) not in spec:
            words[idx] = s(rng) if callable(s) else rng.choice(s)
    if name == 'MACH_vmfault':
        if words[2] == 0:
            words[3] = rng.randrange(1, 12)
    return words


def enum_positions(name):
    """{index: allowed values} for START words with a finite allowed list (used by C09 to range over enums)."""
    return {idx: s for (w, idx), s in TABLE.get(name, {}).items() if w == 'S' and not callable(s)}


def near_miss_spellings(pid, name=''):
    """Strings that are NOT the process a filter is compared with (its name, or its pid written the one canonical way) but
    that a looser comparison - numeric, case-blind, stripped, prefix - would take for it."""
    p = str(pid)
    out = ['0' + p, '00' + p, '+' + p, ' ' + p, p + ' ', p + '\n', hex(pid), p + '.0', p + 'e0', '0o%o' % pid, '0b' + bin(pid)[2:],
           ''.join(chr(0x0660 + int(c)) for c in p), ''.join(chr(0xff10 + int(c)) for c in p), '_'.join(p) if len(p) > 1 else p + '_',
           '-' + p if pid else '-0']
    if name:
        out += [name.upper() if name.upper() != name else name.lower(), name + ' ', ' ' + name, name[:-1], name + 'x',
                name[1:], name.swapcase(), name + '\x00']
        # cut where a kernel structure would cut it (p_comm: 16 bytes, the thread map: 20) or a column would
        out += [name[:k] for k in (1, 2, 4, 8, 15, 16, 17, 19, 20, 31, 32) if k < len(name)] + [name[-16:], name[-8:]]
    return [x for x in out if x != p and x != name]
