"""Entry point:  python -m vlib.main <ID> quick|thorough [--shard i n --out file] | --replay <file>

Exit codes: 0 held on everything explored (possibly with KNOWN-FINDING lines),
            1 VIOLATION property=<id> replay=<path>,
            2 INCONCLUSIVE property=<id> reason=...   (monitor not reached / watchdog / harness failure)
"""
import importlib
import json
import os
import subprocess
import sys
import tempfile
import time
import traceback

from vlib import core


def load_prop(prop):
    return importlib.import_module(f'props.{prop.lower()}')


def run_shard(mod, ctx):
    if '-W' in os.environ.get('VERIF_FLAVOUR', ''):
        # the diagnostics flavour: warnings are errors AND the embedding application has logging configured at DEBUG
        # (root logger, a handler that swallows the text) - a debug line on a hot path must not change what is decoded
        import io
        import logging
        logging.basicConfig(level=logging.DEBUG, stream=io.StringIO(), force=True)
    core.repo_import_check()
    from vlib import interference
    warmed = interference.warm_up()
    try:
        res = mod.run(ctx)
        res.notes['in_process_interference_before_workload'] = 'done' if warmed else 'raised (ignored)'
        if os.environ.get('VERIF_FLAVOUR'):
            res.count('shards_under_' + os.environ['VERIF_FLAVOUR'].replace(' ', '_').replace('-', ''))
            if __debug__ and 'O' in os.environ['VERIF_FLAVOUR'].split()[-1] and 'W' not in os.environ['VERIF_FLAVOUR']:
                res.inconclusive.append('the optimised-interpreter shard ran with __debug__ set')
    except core.Inconclusive as e:
        res = core.Result()
        res.inconclusive.append(str(e))
    return res


def run_sharded(prop, tier, seed, nshards, timeout):
    """Run the shards as independent subprocesses (a dying/hanging child can never wedge the parent)."""
    tmpdir = tempfile.mkdtemp(prefix=f'verif-{prop}-', dir=os.path.join(core.VERIF_DIR, '.work')
                              if os.path.isdir(os.path.join(core.VERIF_DIR, '.work')) else None)
    procs = []
    for i in range(nshards):
        out = os.path.join(tmpdir, f'shard{i}.json')
        cmd = [sys.executable, '-m', 'vlib.main', prop, tier, '--shard', str(i), str(nshards), '--out', out]
        env = dict(os.environ, VERIF_SEED=str(seed))
        # (what a shard prints goes to a file of its own, never to a pipe: the shards are waited for one after the other and
        # a talkative one - python -X dev reports every unclosed file - would otherwise sleep on a full pipe until all the
        # shards before it are done)
        procs.append((i, out, subprocess.Popen(cmd, env=env, stdout=open(out + '.log', 'wb'), stderr=subprocess.STDOUT)))
    # interpreter flavour: shard 0's workload once more under `python -O` (asserts compiled away, __debug__ False) and, in
    # the thorough tier, under `python -OO` (docstrings stripped as well): how the interpreter was started is part of the
    # machine the tool runs on.  Contract libraries switch themselves off there; the oracles of the checks do not.
    mod = load_prop(prop)
    if not getattr(mod, 'NO_OPTIMIZED_FLAVOUR', False):
        # (-W error: the interpreter's warning policy - a DeprecationWarning from a call the library makes becomes an
        # exception, as under PYTHONWARNINGS=error or a test suite's filterwarnings = error)
        # (-X dev: Python Development Mode - codec names and error-handler names are checked on every encode / decode
        # call instead of only when a byte fails to decode, unclosed files and never-awaited coroutines are reported)
        flavours = [('-O',), ('-W', 'error'), ('-X', 'dev')] + ([('-OO',)] if tier != 'quick' else [])
        if not getattr(mod, 'NO_BB_FLAVOUR', False):
            # -bb: comparing bytes with str / int raises BytesWarning instead of quietly answering False.  Not for the
            # checks that list raw events: the event listing prints its payload with str(bytes) on purpose.
            flavours.append(('-bb',))
        for flags in flavours:
            flag = ''.join(flags)
            out = os.path.join(tmpdir, f'shard0{flag}.json')
            # (the flavour re-runs are as large as in the quick tier, in both tiers: they look for behaviour that depends
            # on how the interpreter was started, not for rare inputs - and a thorough-sized shard under `-X dev` runs
            # twice as long as any other shard of its check)
            f_shards = max(1, min(getattr(mod, 'QUICK_SHARDS', 1), os.cpu_count() or 1))
            cmd = [sys.executable, *flags, '-m', 'vlib.main', prop, 'quick', '--shard', '0', str(f_shards), '--out', out]
            env = dict(os.environ, VERIF_SEED=str(seed), VERIF_FLAVOUR=f'python {" ".join(flags)}')
            procs.append((f'0 under python {" ".join(flags)}', out, subprocess.Popen(cmd, env=env, stdout=open(out + '.log', 'wb'),
                                                                                       stderr=subprocess.STDOUT)))
    merged = core.Result()
    deadline = time.time() + timeout
    for i, out, p in procs:
        try:
            p.wait(timeout=max(1, deadline - time.time()))
        except subprocess.TimeoutExpired:
            p.kill()
            p.wait()
            merged.inconclusive.append(f'shard {i} hit the wall-clock watchdog ({timeout}s)')
            continue
        if os.path.exists(out):
            with open(out) as fd:
                merged.merge(core.Result.from_json(json.load(fd)))
        else:
            try:
                with open(out + '.log', 'rb') as fd:
                    fd.seek(max(0, os.path.getsize(out + '.log') - 1500))
                    tail = fd.read().decode('utf-8', 'replace')
            except OSError:
                tail = ''
            merged.inconclusive.append(f'shard {i} produced no result (exit {p.returncode}): {tail}')
    for i, out, p in procs:
        for path in (out, out + '.log'):
            if os.path.exists(path):
                os.unlink(path)
    try:
        os.rmdir(tmpdir)
    except OSError:
        pass
    return merged


def report(prop, mod, tier, seed, res, wall):
    open_keys = core.open_finding_keys(prop)
    known_seen = {}
    real = []
    for v in res.violations:
        if v.key in open_keys:
            known_seen.setdefault(v.key, v)
        else:
            real.append(v)
    if hasattr(mod, 'finalize'):
        mod.finalize(res)
    res.evaluate_requirements()
    extra = mod.evidence_extra(res) if hasattr(mod, 'evidence_extra') else None
    if known_seen:
        extra = dict(extra or {})
        extra['known_findings_observed'] = sorted(known_seen)
    n_viol = len({v.key for v in real})
    ok_evidence = res.counters.get('evaluations', 0) >= 1 and len(res.digests) >= 2
    if ok_evidence:
        core.write_evidence(prop, tier, seed, mod.LEVEL, mod.RULE, res, wall, n_viol, extra)
    for key, v in sorted(known_seen.items()):
        print(f'KNOWN-FINDING: property={prop} {open_keys[key]["what"]} [key={key}]')
    if real:
        seen = set()
        for v in real:
            if v.key in seen:
                continue
            seen.add(v.key)
            path = core.write_replay(prop, v, tier, seed)
            print(f'VIOLATION property={prop} replay={path}')
            print(f'  mechanism: {v.key}')
            print(f'  {v.what[:1200]}')
        return 1
    if res.inconclusive or not ok_evidence:
        reasons = list(res.inconclusive)
        if not ok_evidence:
            reasons.append('the run observed (almost) nothing')
        print(f'INCONCLUSIVE property={prop} reason={"; ".join(reasons)[:1500]}')
        return 2
    c = res.counters
    print(f'OK property={prop} tier={tier} seed={seed} evaluations={c.get("evaluations", 0)} '
          f'distinct={len(res.digests)} wall={wall:.1f}s')
    return 0


def main(argv):
    if len(argv) < 2:
        print(__doc__)
        return 2
    prop = argv[0].upper()
    mod = load_prop(prop)
    seed = int(os.environ.get('VERIF_SEED', '0') or 0)
    if argv[1] == '--replay':
        core.repo_import_check()
        with open(argv[2]) as fd:
            rec = json.load(fd)
        ctx = core.Ctx(prop, rec.get('tier', 'quick'), rec.get('seed', 0))
        res = mod.replay(core.unhex(rec['case']), ctx)
        open_keys = core.open_finding_keys(prop)
        bad = [v for v in res.violations if v.key not in open_keys]
        for v in res.violations:
            tag = 'VIOLATION' if v.key not in open_keys else 'KNOWN-FINDING:'
            print(f'{tag} property={prop} replay={argv[2]}\n  mechanism: {v.key}\n  {v.what[:2000]}')
        if not res.violations:
            print(f'replay: property {prop} held on this case')
        return 1 if bad else 0
    tier = os.environ.get('VERIF_TIER') if argv[1] not in ('quick', 'thorough') else argv[1]
    if tier not in ('quick', 'thorough'):
        tier = 'quick'
    if '--shard' in argv:
        k = argv.index('--shard')
        shard, nshards = int(argv[k + 1]), int(argv[k + 2])
        out = argv[argv.index('--out') + 1]
        os.environ['VERIF_SHARD'] = str(shard)
        ctx = core.Ctx(prop, tier, seed, shard, nshards)
        try:
            res = run_shard(mod, ctx)
        except Exception:
            traceback.print_exc()
            return 3
        with open(out + '.tmp', 'w') as fd:
            json.dump(res.to_json(), fd)
        os.replace(out + '.tmp', out)
        return 0
    t0 = time.time()
    nshards = getattr(mod, 'THOROUGH_SHARDS', 16) if tier == 'thorough' else getattr(mod, 'QUICK_SHARDS', 1)
    nshards = max(1, min(nshards, os.cpu_count() or 1))
    timeout = getattr(mod, 'THOROUGH_TIMEOUT', 3600) if tier == 'thorough' else getattr(mod, 'QUICK_TIMEOUT', 600)
    try:
        res = run_sharded(prop, tier, seed, nshards, timeout)
    except Exception:
        traceback.print_exc()
        print(f'INCONCLUSIVE property={prop} reason=harness failure (see traceback above)')
        return 2
    return report(prop, mod, tier, seed, res, time.time() - t0)


def guarded_main(argv):
    """A failure of the harness itself is never reported as a violation (exit 1 is reserved for VIOLATION lines)."""
    try:
        return main(argv)
    except SystemExit:
        raise
    except BaseException:
        traceback.print_exc()
        prop = argv[0].upper() if argv else '?'
        print(f'INCONCLUSIVE property={prop} reason=harness failure (see traceback above)')
        return 3 if '--shard' in argv else 2


if __name__ == '__main__':
    sys.exit(guarded_main(sys.argv[1:]))
