"""The command line as an entry point: run a command of pykdebugparser.__main__ on dump bytes (click's CliRunner, a
real temporary file) and produce the API listing the same options describe, so that checks can require both to agree."""
import io
import os
import tempfile


def number(rng, v):
    """A filter value in one of the notations the -cf / -sf options accept (int(value, 0))."""
    return rng.choice((str(v), hex(v), '0x%X' % v, '0o%o' % v, '0b' + bin(v)[2:]))


def run(cmd, data, tid=None, process=None, classes=(), subs=(), show_tid=None, color=None, count=None, rng=None):
    """Returns (stdout text, exception or None, argv without the path)."""
    from click.testing import CliRunner
    from pykdebugparser.__main__ import cli
    args = []
    if tid is not None:
        args += ['--tid', str(tid)]
    if process is not None:
        args += ['--process', process]
    for c in classes:
        args += [rng.choice(('-cf', '--class-filters')) if rng else '-cf', number(rng, c) if rng else hex(c)]
    for s in subs:
        args += [rng.choice(('-sf', '--subclass-filters')) if rng else '-sf', number(rng, s) if rng else hex(s)]
    if show_tid is not None:
        args += ['--show-tid' if show_tid else '--no-show-tid']
    if color is not None:
        args += ['--color' if color else '--no-color']
    if count is not None:
        args += ['-c', str(count)]
    fd, path = tempfile.mkstemp(prefix='verif-cli-', suffix='.bin')
    try:
        with os.fdopen(fd, 'wb') as f:
            f.write(data)
        r = CliRunner().invoke(cli, [cmd, path] + args)
    finally:
        os.unlink(path)
    exc = r.exception if r.exception is not None and not isinstance(r.exception, SystemExit) else None
    return r.stdout, exc, args


def api(cmd, data, tid=None, process=None, classes=(), subs=(), show_tid=False, color=True):
    """The items the library's formatted_* method yields under the settings the command line documents for `cmd`."""
    from pykdebugparser.pykdebugparser import PyKdebugParser
    p = PyKdebugParser()
    p.filter_tid = tid
    p.show_tid = show_tid
    if cmd in ('kevents', 'traces'):
        p.filter_class = list(classes)
        p.filter_subclass = list(subs)
    if cmd in ('traces', 'callstacks', 'logs'):
        p.filter_process = process
    if cmd == 'traces':
        p.color = color
    method = {'kevents': p.formatted_kevents, 'traces': p.formatted_traces, 'callstacks': p.formatted_callstacks,
              'logs': p.formatted_logs}[cmd]
    return list(method(io.BytesIO(data)))
