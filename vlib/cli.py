"""The command line as an entry point: run a command of pykdebugparser.__main__ on dump bytes (click's CliRunner, a
real temporary file) and produce the API listing the same options describe, so that checks can require both to agree."""
import io
import os
import tempfile


def number(rng, v):
    """A filter value in one of the notations the -cf / -sf options accept (int(value, 0))."""
    return rng.choice((str(v), hex(v), '0x%X' % v, '0o%o' % v, '0b' + bin(v)[2:]))


def run(cmd, data, tid=None, process=None, classes=(), subs=(), show_tid=None, color=None, count=None, rng=None):
    """Returns (stdout text, exception or None, argv without the path)."""
    from click.testing import CliRunner
    from pykdebugparser.__main__ import cli
    args = []
    if tid is not None:
        args += ['--tid', str(tid)]
    if process is not None:
        args += ['--process', process]
    for c in classes:
        args += [rng.choice(('-cf', '--class-filters')) if rng else '-cf', number(rng, c) if rng else hex(c)]
    for s in subs:
        args += [rng.choice(('-sf', '--subclass-filters')) if rng else '-sf', number(rng, s) if rng else hex(s)]
    if show_tid is not None:
        args += ['--show-tid' if show_tid else '--no-show-tid']
    if color is not None:
        args += ['--color' if color else '--no-color']
    if count is not None:
        args += ['-c', str(count)]
    fd, path = tempfile.mkstemp(prefix='verif-cli-', suffix='.bin')
    try:
        with os.fdopen(fd, 'wb') as f:
            f.write(data)
        r = CliRunner().invoke(cli, [cmd, path] + args)
    finally:
        os.unlink(path)
    exc = r.exception if r.exception is not None and not isinstance(r.exception, SystemExit) else None
    return r.stdout, exc, args


def api(cmd, data, tid=None, process=None, classes=(), subs=(), show_tid=False, color=True):
    """The items the library's formatted_* method yields under the settings the command line documents for `cmd`."""
    from pykdebugparser.pykdebugparser import PyKdebugParser
    p = PyKdebugParser()
    p.filter_tid = tid
    p.show_tid = show_tid
    if cmd in ('kevents', 'traces'):
        p.filter_class = list(classes)
        p.filter_subclass = list(subs)
    if cmd in ('traces', 'callstacks', 'logs'):
        p.filter_process = process
    if cmd == 'traces':
        p.color = color
    method = {'kevents': p.formatted_kevents, 'traces': p.formatted_traces, 'callstacks': p.formatted_callstacks,
              'logs': p.formatted_logs}[cmd]
    return list(method(io.BytesIO(data)))


def run_process(cmd, data, extra=(), terminal_columns=None, timeout=120):
    """The command line as a real process: `python -m pykdebugparser <cmd> <file> ...` with its standard output on a pipe
    (terminal_columns None) or on a pseudo terminal of that many columns (stdin / stderr as well).  Returns (text with
    \\r\\n -> \\n, exit status).  What is printed must not depend on what the output is connected to - only whether escape
    sequences are emitted may (so callers compare with the sequences removed)."""
    import subprocess
    import sys
    from vlib import core
    fd, path = tempfile.mkstemp(prefix='verif-cli-', suffix='.bin')
    env = dict(os.environ, PYTHONPATH=os.pathsep.join([core.REPO] + [p for p in os.environ.get('PYTHONPATH', '').split(os.pathsep) if p]),
               TERM='xterm-256color')
    env.pop('COLUMNS', None)
    env.pop('LINES', None)
    argv = [sys.executable, '-m', 'pykdebugparser', cmd, path] + list(extra)
    try:
        with os.fdopen(fd, 'wb') as f:
            f.write(data)
        if terminal_columns is None:
            p = subprocess.run(argv, env=env, stdout=subprocess.PIPE, stderr=subprocess.PIPE, timeout=timeout)
            return p.stdout.decode('utf-8', 'replace'), p.returncode
        import fcntl
        import pty
        import struct
        import termios
        master, slave = pty.openpty()
        fcntl.ioctl(slave, termios.TIOCSWINSZ, struct.pack('HHHH', 50, terminal_columns, 0, 0))
        proc = subprocess.Popen(argv, env=env, stdin=slave, stdout=slave, stderr=slave, close_fds=True)
        os.close(slave)
        chunks = []
        while True:
            try:
                b = os.read(master, 65536)
            except OSError:          # EIO: the other side is closed
                break
            if not b:
                break
            chunks.append(b)
        proc.wait(timeout=timeout)
        os.close(master)
        return b''.join(chunks).decode('utf-8', 'replace').replace('\r\n', '\n'), proc.returncode
    finally:
        os.unlink(path)


def terminal_agrees(res, key_prefix, data, label, cmds=(('traces', ('--no-color',)), ('traces', ())), columns=(80, 200)):
    """Monitor: the command line prints the same text (escape sequences removed) on a pipe and on pseudo terminals."""
    import re
    ansi = re.compile(r'\x1b\[[0-9;]*m')
    for cmd, extra in cmds:
        try:
            piped, rc0 = run_process(cmd, data, extra)
            outs = {cols: run_process(cmd, data, extra, terminal_columns=cols) for cols in columns}
        except Exception as x:
            res.inconclusive.append(f'{label}: command line on a pseudo terminal could not be run: {x!r}')
            return False
        res.count('cli_runs_on_a_terminal', len(columns))
        for cols, (text, rc) in outs.items():
            a, b = ansi.sub('', piped), ansi.sub('', text)
            if rc != rc0 or a != b:
                la, lb = a.split('\n'), b.split('\n')
                k = next((i for i, (x, y) in enumerate(zip(la, lb)) if x != y), min(len(la), len(lb)))
                res.violation(f'{key_prefix}-cli-text-depends-on-the-terminal', f'{label}: `{cmd} {" ".join(extra)}` on a '
                              f'{cols}-column terminal prints {len(lb)} lines (exit {rc}), on a pipe {len(la)} (exit {rc0}); '
                              f'line {k}: {lb[k] if k < len(lb) else None!r} vs {la[k] if k < len(la) else None!r}',
                              {'file': data, 'cmd': cmd, 'args': list(extra), 'columns': cols})
                return False
    return True
