"""pytest plugin: runs the repository's own tests with the runtime contracts attached (from_kd_buf post-condition,
TracesParser window invariant, CallstacksParser list invariant).  A contract that fires there is either too strict
or a defect the tests do not assert.  Results go to the file named by VERIF_CONTRACT_REPORT."""
import json
import os


def pytest_configure(config):
    from vlib import monitors
    from props import c04, c15
    config._verif_log = monitors.ContractLog()
    config._verif_undo = monitors.attach_from_kd_buf_contract(config._verif_log)
    # test modules bind `from pykdebugparser.kevent import from_kd_buf` after this point, so they get the contract
    c04.install_invariant()
    c15.install_invariant()


def pytest_sessionfinish(session, exitstatus):
    from props import c04, c15
    cfg = session.config
    out = os.environ.get('VERIF_CONTRACT_REPORT')
    if not out:
        return
    rep = {
        'exitstatus': int(exitstatus),
        'from_kd_buf_evaluations': cfg._verif_log.evaluations,
        'from_kd_buf_failures': [(k, w) for k, w, _ in cfg._verif_log.failures],
        'window_invariant_evaluations': c04.InvariantLog.evaluations,
        'window_invariant_failures': list(c04.InvariantLog.failures),
        'callstack_invariant_evaluations': c15.Inv.evaluations,
        'callstack_invariant_failures': list(c15.Inv.failures),
    }
    with open(out, 'w') as fd:
        json.dump(rep, fd)
