"""Runs the C18 rendering workload in a subprocess under a substituted host platform.

usage (internal): python -m vlib.hostswap <host> <seed>     -> JSON on stdout
The host's errno / signal / socket tables, os.strerror, sys.platform, TZ and locale are replaced *before* the
repository is imported, so that any name the repository takes from the running interpreter shows up as a
difference between hosts.
"""
import json
import os
import sys


def darwin_tables():
    from vlib import darwin_ref as D
    return dict(D.ERRNO), dict(D.SIGNALS), dict(D.AF), dict(D.SOCK), D.SOL_SOCKET


def scrambled_tables():
    from vlib import darwin_ref as D
    err = {k: 'E_HOST_%d' % ((k * 7) % 131) for k in range(1, 134)}
    sig = {k: 'SIG_HOST_%d' % ((k * 5) % 67) for k in range(1, 65)}
    af = {k: 'AF_HOST_%d' % ((k * 3) % 47) for k in range(0, 46)}
    sock = {k: 'SOCK_HOST_%d' % k for k in (1, 2, 3, 4, 5, 6, 10)}
    return err, sig, af, sock, 42


def bsdlike_tables():
    """A BSD-family host that is not macOS: Darwin's errno numbering up to 81 (EFTYPE = 79 included), FreeBSD's above."""
    err, sig, af, sock, sol = darwin_tables()
    err = {k: v for k, v in err.items() if k <= 81}
    err.update({82: 'EIDRM', 83: 'ENOMSG', 84: 'EOVERFLOW', 85: 'ECANCELED', 86: 'EILSEQ', 87: 'ENOATTR', 88: 'EDOOFUS',
                89: 'EBADMSG', 90: 'EMULTIHOP', 91: 'ENOLINK', 92: 'EPROTO', 93: 'ENOTCAPABLE', 94: 'ECAPMODE',
                95: 'ENOTRECOVERABLE', 96: 'EOWNERDEAD', 97: 'EINTEGRITY'})
    return err, sig, af, sock, sol


def windowslike_tables():
    """A Windows-shaped host: the C runtime's errno numbering (POSIX up to 42, the networking errors from 100 on), the
    seven signals Windows has, Winsock's address families (AF_INET6 is 23) - and a 32-bit C long (LLP64), see install()."""
    err = {1: 'EPERM', 2: 'ENOENT', 3: 'ESRCH', 4: 'EINTR', 5: 'EIO', 6: 'ENXIO', 7: 'E2BIG', 8: 'ENOEXEC', 9: 'EBADF',
           10: 'ECHILD', 11: 'EAGAIN', 12: 'ENOMEM', 13: 'EACCES', 14: 'EFAULT', 16: 'EBUSY', 17: 'EEXIST', 18: 'EXDEV',
           19: 'ENODEV', 20: 'ENOTDIR', 21: 'EISDIR', 22: 'EINVAL', 23: 'ENFILE', 24: 'EMFILE', 25: 'ENOTTY', 27: 'EFBIG',
           28: 'ENOSPC', 29: 'ESPIPE', 30: 'EROFS', 31: 'EMLINK', 32: 'EPIPE', 33: 'EDOM', 34: 'ERANGE', 36: 'EDEADLK',
           38: 'ENAMETOOLONG', 39: 'ENOLCK', 40: 'ENOSYS', 41: 'ENOTEMPTY', 42: 'EILSEQ', 100: 'EADDRINUSE',
           101: 'EADDRNOTAVAIL', 102: 'EAFNOSUPPORT', 103: 'EALREADY', 104: 'EBADMSG', 105: 'ECANCELED', 106: 'ECONNABORTED',
           107: 'ECONNREFUSED', 108: 'ECONNRESET', 109: 'EDESTADDRREQ', 110: 'EHOSTUNREACH', 112: 'EINPROGRESS',
           113: 'EISCONN', 114: 'ELOOP', 115: 'EMSGSIZE', 116: 'ENETDOWN', 117: 'ENETRESET', 118: 'ENETUNREACH',
           119: 'ENOBUFS', 126: 'ENOTCONN', 128: 'ENOTSOCK', 130: 'EOPNOTSUPP', 138: 'ETIMEDOUT', 140: 'EWOULDBLOCK'}
    sig = {2: 'SIGINT', 4: 'SIGILL', 8: 'SIGFPE', 11: 'SIGSEGV', 15: 'SIGTERM', 21: 'SIGBREAK', 22: 'SIGABRT'}
    af = {0: 'AF_UNSPEC', 2: 'AF_INET', 6: 'AF_IPX', 16: 'AF_APPLETALK', 23: 'AF_INET6', 26: 'AF_IRDA', 32: 'AF_BTH'}
    sock = {1: 'SOCK_STREAM', 2: 'SOCK_DGRAM', 3: 'SOCK_RAW', 4: 'SOCK_RDM', 5: 'SOCK_SEQPACKET'}
    return err, sig, af, sock, 0xffff


def permuted_tables():
    """A host that uses the familiar NAMES with other NUMBERS (as illumos or Linux/MIPS do for the socket kinds): Darwin's
    names rotated over Darwin's numbers.  The constants of the errno / signal / socket modules (errno.EAGAIN,
    signal.SIGUSR1, socket.SOCK_STREAM, socket.AF_INET6 ...) are set to match, see install()."""
    err, sig, af, sock, sol = darwin_tables()

    def rotate(table, by):
        keys = sorted(table)
        return {k: table[keys[(i + by) % len(keys)]] for i, k in enumerate(keys)}
    sock = {2: 'SOCK_STREAM', 1: 'SOCK_DGRAM', 4: 'SOCK_RAW', 5: 'SOCK_RDM', 6: 'SOCK_SEQPACKET'}
    return rotate(err, 7), rotate(sig, 3), rotate(af, 5), sock, 0x29


ENV_READS = set()


class RecordingEnviron:
    """os.environ wrapped by a recording proxy (writes go through to the real environment, so TZ / tzset keep working):
    which variables does code of the repository look at?  Third-party libraries read their own documented switches
    (NO_COLOR, FORCE_COLOR, TERM ...); only direct readers inside the repository are recorded."""

    def __init__(self, real):
        self._real = real

    def _note(self, key):
        f = sys._getframe(2)
        while f is not None and f.f_code.co_filename.endswith(('/os.py', '/_collections_abc.py')):
            f = f.f_back          # os.getenv() and the mapping mix-ins: the reader is their caller
        if f is not None:
            name = f.f_code.co_filename
            if '/pykdebugparser/' in name and '/verif/' not in name and '/site-packages/' not in name:
                ENV_READS.add(str(key))

    def __getitem__(self, key):
        self._note(key)
        return self._real[key]

    def get(self, key, default=None):
        self._note(key)
        return self._real.get(key, default)

    def __contains__(self, key):
        self._note(key)
        return key in self._real

    def __setitem__(self, key, value):
        self._real[key] = value

    def __delitem__(self, key):
        del self._real[key]

    def __iter__(self):
        return iter(self._real)

    def __len__(self):
        return len(self._real)

    def __getattr__(self, name):
        return getattr(self._real, name)


CLOCK_READS = set()
FILE_OPENS = set()


def _repo_frame(depth=2):
    f = sys._getframe(depth)
    while f is not None and not f.f_code.co_filename.startswith('/'):
        f = f.f_back
    if f is None:
        return None
    name = f.f_code.co_filename
    return name if ('/pykdebugparser/' in name and '/verif/' not in name and '/site-packages/' not in name) else None


def watch_clock_and_files(clock_shift):
    """Record wall-clock reads and file opens made DIRECTLY by code of the repository.  clock_shift != 0 makes those
    clock reads (and only those) answer with a shifted time: a rendering that depends on 'now' then differs between
    the shifted and the unshifted run.  The repository's own data files and the dump it is given are not host state."""
    import time
    import datetime as _dt
    real_time, real_localtime = time.time, time.localtime

    def fake_time():
        if _repo_frame() is not None:
            CLOCK_READS.add('time.time')
            return real_time() + clock_shift
        return real_time()

    def fake_localtime(secs=None):
        if secs is None and _repo_frame() is not None:
            CLOCK_READS.add('time.localtime')
            return real_localtime(real_time() + clock_shift)
        return real_localtime(secs) if secs is not None else real_localtime()
    time.time, time.localtime = fake_time, fake_localtime

    class WatchedDatetime(_dt.datetime):
        @classmethod
        def now(cls, tz=None):
            if _repo_frame() is not None:
                CLOCK_READS.add('datetime.now')
                return _dt.datetime.fromtimestamp(real_time() + clock_shift, tz)
            return _dt.datetime.fromtimestamp(real_time(), tz)

        @classmethod
        def utcnow(cls):
            if _repo_frame() is not None:
                CLOCK_READS.add('datetime.utcnow')
            return _dt.datetime.fromtimestamp(real_time() + (clock_shift if _repo_frame() else 0), _dt.timezone.utc).replace(tzinfo=None)

        @classmethod
        def today(cls):
            return cls.now()
    _dt.datetime = WatchedDatetime

    def audit(event, args):
        if event == 'open' and args and isinstance(args[0], str):
            path = args[0]
            f = sys._getframe(1)
            for _ in range(6):          # open() <- (io / pathlib helpers) <- caller
                if f is None:
                    break
                name = f.f_code.co_filename
                if '/pykdebugparser/' in name and '/verif/' not in name and '/site-packages/' not in name:
                    if '/pykdebugparser/' not in path and not os.path.basename(path).startswith('verif-'):
                        FILE_OPENS.add(path)
                    break
                if '/verif/' in name:
                    break
                f = f.f_back
    sys.addaudithook(audit)


FILE_PROBES = set()


def watch_file_probes():
    """Which paths does code of the repository ask the file system about (exists / stat / listdir / open, directly or
    through pathlib, glob, shutil ...)?  Recorded when the first frame outside the standard library is the repository's."""
    import glob
    stdlib = os.path.dirname(os.__file__)

    def asker():
        f = sys._getframe(2)
        while f is not None and (f.f_code.co_filename.startswith(stdlib) or f.f_code.co_filename.startswith('<')):
            if f.f_code.co_filename.startswith('<frozen importlib'):
                return False                  # the import system looking for a module
            f = f.f_back
        if f is None:
            return False
        name = f.f_code.co_filename
        return '/pykdebugparser/' in name and '/verif/' not in name and '/site-packages/' not in name

    def note(path):
        try:
            p = os.fspath(path)
            p = p.decode() if isinstance(p, bytes) else p
        except TypeError:
            return
        package = os.path.join(os.path.realpath(os.environ._real.get('VERIF_REPO', '/repo')), 'pykdebugparser')
        if isinstance(p, str) and not os.path.realpath(p).startswith(package) and not package.startswith(os.path.realpath(p)):
            FILE_PROBES.add(os.path.abspath(p))

    def wrap(mod, attr):
        real = getattr(mod, attr)

        def probe(path='.', *a, **kw):
            if asker():
                note(path)
            return real(path, *a, **kw)
        probe.__name__ = attr
        setattr(mod, attr, probe)
    for mod, attr in ((os, 'stat'), (os, 'lstat'), (os, 'access'), (os, 'listdir'), (os, 'scandir'), (os.path, 'exists'),
                      (os.path, 'isfile'), (os.path, 'isdir'), (os.path, 'lexists'), (os.path, 'getsize'),
                      (os.path, 'getmtime'), (glob, 'glob'), (glob, 'iglob')):
        wrap(mod, attr)

    def audit(event, args):
        if event == 'open' and args and isinstance(args[0], (str, bytes)):
            f = sys._getframe(1)
            while f is not None and (f.f_code.co_filename.startswith(stdlib) or f.f_code.co_filename.startswith('<')):
                if f.f_code.co_filename.startswith('<frozen importlib'):
                    return
                f = f.f_back
            if f is not None:
                name = f.f_code.co_filename
                if '/pykdebugparser/' in name and '/verif/' not in name and '/site-packages/' not in name:
                    note(args[0])
    sys.addaudithook(audit)


def install(host):
    os.environ = RecordingEnviron(os.environ)        # os.getenv() looks the name up in the os module: recorded too
    watch_clock_and_files(float(os.environ._real.get('VERIF_CLOCK_SHIFT', '0')))
    watch_file_probes()
    if host == 'real':
        return
    # import everything third-party / stdlib that looks at the platform before the platform is disguised
    import ctypes, datetime, plistlib, enum, errno, signal, socket, time, locale, tempfile, shutil, subprocess  # noqa
    import click.testing  # noqa
    import construct, pygments, pygments.lexers, pygments.formatters, termcolor, click  # noqa
    err, sig, af, sock, sol = (darwin_tables() if host == 'darwin' else bsdlike_tables() if host == 'bsdlike' else
                               windowslike_tables() if host == 'windowslike' else permuted_tables() if host == 'permuted' else
                               scrambled_tables())
    if host == 'windowslike':
        # LLP64: C long / unsigned long are 32 bits wide there (ctypes.c_long is ctypes.c_int on Windows)
        ctypes.c_long, ctypes.c_ulong = ctypes.c_int32, ctypes.c_uint32
    if host in ('windowslike', 'scrambled'):
        # a 32-bit interpreter: every way of asking for the word size says 32
        sys.maxsize = (1 << 31) - 1
        import platform as _platform
        _platform.architecture = lambda *a, **kw: ('32bit', 'ELF')
        _platform.machine = lambda: 'i686'
        ctypes.c_size_t, ctypes.c_ssize_t, ctypes.c_void_p = ctypes.c_uint32, ctypes.c_int32, ctypes.c_uint32
    errno.errorcode.clear()
    errno.errorcode.update(err)
    for code, name in err.items():
        if name.startswith('E') and name[1:2].isupper():
            setattr(errno, name, code)      # e.g. errno.EFTYPE on the BSD-shaped hosts (names the real host lacks)
    signal.Signals = enum.IntEnum('Signals', {v: k for k, v in sig.items()})
    # the modules' own constants follow the tables (code that reads socket.SOCK_STREAM or signal.SIGUSR1 instead of the
    # enums sees the same host)
    for mod, table, prefix in ((socket, af, 'AF_'), (socket, sock, 'SOCK_'), (signal, sig, 'SIG')):
        for code, name in table.items():
            if name.startswith(prefix) and name.isidentifier():
                setattr(mod, name, code)
    socket.AddressFamily = enum.IntEnum('AddressFamily', {v: k for k, v in af.items()})
    socket.SocketKind = enum.IntEnum('SocketKind', {v: k for k, v in sock.items()})
    socket.SOL_SOCKET = sol
    signal.NSIG = {'darwin': 32, 'bsdlike': 129, 'windowslike': 23}.get(host, 200)      # number of signals: 32 Darwin, 65 Linux, 129 FreeBSD
    os.strerror = lambda code: 'host error text %d' % code
    sys.platform = 'darwin' if host == 'darwin' else 'freebsd13'
    # every way of asking which system this is gives the same answer: platform.system() / uname() / os.uname()
    import collections
    import platform
    system = {'darwin': 'Darwin', 'bsdlike': 'FreeBSD', 'windowslike': 'Windows', 'permuted': 'SunOS'}.get(host, 'AIX')
    release = {'Darwin': '23.4.0', 'FreeBSD': '13.2-RELEASE', 'Windows': '10', 'SunOS': '5.11'}.get(system, '7.3')
    uname = collections.namedtuple('uname_result', 'system node release version machine')(system, 'host', release, release, 'arm64')
    platform.system = lambda: system
    platform.release = lambda: release
    platform.uname = lambda: uname
    platform.platform = lambda *a, **kw: f'{system}-{release}'
    platform.mac_ver = lambda *a, **kw: ('14.4', ('', '', ''), 'arm64') if system == 'Darwin' else ('', ('', '', ''), '')
    os.uname = lambda: collections.namedtuple('posix_uname', 'sysname nodename release version machine')(system, 'host', release, release, 'arm64')
    if host == 'darwin':
        # a Mac newer than the tool's bundled tables: its interpreter knows error numbers above 106
        errno.errorcode.update({107: 'ENOTCAPABLE', 108: 'ENEWERTHANTHETOOL'})
        errno.ENOTCAPABLE = 107
    if host in ('permuted', 'bsdlike'):
        # another IMPLEMENTATION of the language: every way of asking says PyPy (the unchanged package runs on it)
        import types
        impl = {k: getattr(sys.implementation, k) for k in dir(sys.implementation) if not k.startswith('__')}
        impl['name'] = 'pypy'
        sys.implementation = types.SimpleNamespace(**impl)
        platform.python_implementation = lambda: 'PyPy'
        sys.pypy_version_info = (7, 3, 15, 'final', 0)
    if host in ('scrambled', 'permuted'):
        sys.byteorder = 'big'          # what the interpreter reports on s390x / ppc64 / sparc64 (read at import time or later)
    os.environ['TZ'] = 'America/Los_Angeles' if host == 'darwin' else 'Asia/Kolkata'
    os.environ['LC_ALL'] = 'C' if host == 'darwin' else 'tr_TR.UTF-8'
    try:
        time.tzset()
    except Exception:
        pass
    try:
        locale.setlocale(locale.LC_ALL, '')
    except Exception:
        pass


def workload(seed):
    import io
    import random
    from vlib import ev, wire, histories as H, gen, darwin_ref as D, core
    core.repo_import_check()
    rng = random.Random(seed)
    out = {}

    def render(name, start, end):
        parser = ev.new_parser()
        text = None
        try:
            for e in H.materialize(H.on_thread(6, H.syscall(name, start, end))):
                t = parser.feed(e)
                if t is not None:
                    text = str(t)
        except Exception as x:
            return f'<raised {type(x).__name__}: {x}>'
        return text
    # (the error word is a 64-bit slot: values whose low half alone is a listed code are not that code)
    codes = list(range(0, 135)) + [200, 4000, 1 << 31, (1 << 32) - 1, 1 << 32, (1 << 32) + 1, (1 << 32) + 35, (1 << 32) + 102,
                                   (1 << 33) + 2, (1 << 63) + 9, (1 << 64) - 2, (1 << 64) - 1]
    out['errno_read'] = {str(c): render('BSC_read', (3, 0x1000, 16, 0), (c, 16, 0, 0)) for c in codes}
    out['errno_pipe'] = {str(c): render('BSC_pipe', (0, 0, 0, 0), (c, 4, 5, 0)) for c in codes}
    out['errno_open'] = {str(c): render('BSC_open', (0, 0, 0, 0), (c, 4, 5, 0)) for c in (1, 2, 13, 35, 60, 102)}
    out['signals'] = {str(s): render('BSC_sigaction', (s, 0x10, 0x20, 0), (0, 0, 0, 0)) for s in range(1, 32)}
    out['socket'] = {f'{a},{k}': render('BSC_socket', (a, k, 0, 0), (0, 3, 0, 0)) for a in sorted(D.AF) for k in sorted(D.SOCK)}
    out['socketpair'] = {f'{a},{k}': render('BSC_socketpair', (a, k, 0, 0x99), (0, 0, 0, 0))
                         for a in sorted(D.AF_CORE) for k in sorted(D.SOCK)}
    out['socket_delegate'] = {f'{a},{k}': render('BSC_socket_delegate', (a, k, 0, 77), (0, 3, 0, 0))
                              for a in sorted(D.AF_CORE) for k in sorted(D.SOCK)}
    # words the tool shows as signed numbers (file offsets, deltas): the same dump reads the same on a 32-bit interpreter
    signed = [(1 << 31) - 1, 1 << 31, (1 << 32) - 1, 1 << 32, 1 << 40, (1 << 62) + 5, (1 << 63) - 1, 1 << 63, (1 << 64) - 2]
    signed += [(1 << k) + 5 for k in range(33, 64)] + [(1 << k) - 1 for k in range(33, 64)]   # (a mask constant one digit short)
    out['signed_lseek'] = {hex(w): render('BSC_lseek', (5, w, 0, 0), (0, w, 0, 0)) for w in signed}
    out['signed_preadv'] = {hex(w): render('BSC_sys_preadv', (5, 0x1000, 2, w), (0, 64, 0, 0)) for w in signed}
    out['signed_decr'] = {hex(w): render('DecrSet', (w, w, w, w), (0, 0, 0, 0)) for w in signed}
    # numbers Darwin does not list: whatever happens (a name, a bare number, an exception) must not depend on the host
    out['signals_unlisted'] = {str(s): render('BSC_sigaction', (s, 0x10, 0x20, 0), (22, 0, 0, 0))
                               for s in [0] + list(range(32, 70)) + [128, 1 << 31]}
    out['socket_unlisted'] = {f'{a},{k}': render('BSC_socket', (a, k, 0, 0), (47, 0, 0, 0))
                              for a, k in [(26, 1), (41, 1), (42, 1), (43, 2), (44, 1), (45, 1), (255, 1), (2, 0), (2, 6), (2, 10),
                                           (2, 2048), (2, 2049), (2, 524288), (30, 524289), (1 << 31, 1)]}
    out['socketpair_unlisted'] = {f'{a},{k}': render('BSC_socketpair', (a, k, 0, 0x99), (47, 0, 0, 0))
                                  for a, k in [(26, 1), (42, 2), (2, 2048)]}
    # ioctl request words with every kind of group byte (letters, control characters, the upper half)
    out['ioctl_groups'] = {hex(g): render('BSC_ioctl', (3, 0x80040000 | (g << 8) | 1, 0, 0), (0, 0, 0, 0))
                           for g in (0x00, 0x0a, 0x20, 0x27, 0x3f, 0x5c, 0x74, 0x7f, 0x80, 0xa0, 0xe9, 0xf4, 0xff)}
    levels = [D.SOL_SOCKET, 0, 1, 6, 17, 41, 42, 0xfffe]
    opts = sorted(D.SO_OPTIONS)
    out['setsockopt'] = {f'{l},{o}': render('BSC_setsockopt', (3, l, o, 4), (0, 0, 0, 0)) for l in levels for o in opts[:12]}
    out['getsockopt'] = {f'{l},{o}': render('BSC_getsockopt', (3, l, o, 4), (0, 0, 0, 0)) for l in levels for o in opts[12:20]}
    # a whole dump through the front-end (plain text), and logs of a v3 dump (timestamps must not follow TZ)
    from pykdebugparser.pykdebugparser import PyKdebugParser
    evs = gen.gen_scenario_events(rng, n_scenarios=9)
    extra = []
    for c in (1, 11, 35, 36, 45, 78, 89, 102):
        extra += H.on_thread(11, H.syscall('BSC_write', (1, 2, 3, 0), (c, 0, 0, 0)))
    extra += H.on_thread(11, H.syscall('BSC_socket', (30, 2, 0, 0), (0, 5, 0, 0)))
    extra += H.on_thread(11, H.syscall('BSC_sigaction', (10, 0, 0, 0), (0, 0, 0, 0)))
    evs += H.materialize(extra, t0=0x200000001)
    data = wire.v2_file(gen.threadmap_for(evs), 8, gen.events_to_records(evs))
    p = PyKdebugParser()
    p.color = False
    try:
        out['formatted_traces'] = list(p.formatted_traces(io.BytesIO(data)))
        out['formatted_kevents_digest'] = core.digest('\n'.join(PyKdebugParser().formatted_kevents(io.BytesIO(data))))
    except Exception as x:
        out['formatted_traces'] = [f'<raised {type(x).__name__}: {x}>']
    # the same dump cut short (inside the header, the thread map, a record): whatever the tool does with the rest - the
    # events it still reports, the error it raises - must not follow the host or the interpreter's flags
    for cut in (0, 1, 100, 0x11f, 0x120 + 13, len(data) - 64 * 3 - 1, len(data) - 33, len(data) - 1):
        try:
            lines = list(PyKdebugParser().formatted_kevents(io.BytesIO(data[:cut])))
            out.setdefault('cut_dump', {})[str(cut)] = f'{len(lines)} events, digest ' + core.digest('\n'.join(lines))
        except Exception as x:
            out.setdefault('cut_dump', {})[str(cut)] = f'<cut dump: {type(x).__name__}>'
    # coloured trace lines (the tool's default): every listed error code, signal, family x type in one dump
    listed = []
    for c in range(0, 135):
        listed += H.on_thread(12, H.syscall('BSC_read', (3, 0x1000, 16, 0), (c, 16, 0, 0)))
    for sgn in range(1, 32):
        listed += H.on_thread(12, H.syscall('BSC_sigaction', (sgn, 0x10, 0x20, 0), (0, 0, 0, 0)))
    for a in sorted(D.AF):
        for k in sorted(D.SOCK):
            listed += H.on_thread(12, H.syscall('BSC_socket', (a, k, 0, 0), (rng.choice((0, 41, 43, 60)), 3, 0, 0)))
    for o in opts[:20]:
        listed += H.on_thread(12, H.syscall('BSC_setsockopt', (3, D.SOL_SOCKET, o, 4), (0, 0, 0, 0)))
    levs = H.materialize(listed, t0=0x300000001)
    cdata = wire.v2_file(gen.threadmap_for(levs), 8, gen.events_to_records(levs))
    pc = PyKdebugParser()
    pc.color = True
    try:
        out['coloured_traces'] = list(pc.formatted_traces(io.BytesIO(cdata)))
        out['coloured_traces_of_the_dump'] = list(pc.formatted_traces(io.BytesIO(data)))
        if not any('\x1b[' in l for l in out['coloured_traces']):
            out['coloured_traces'].append('<no escape sequence in the coloured output>')
    except Exception as x:
        out['coloured_traces'] = [f'<raised {type(x).__name__}: {x}>']
    # the command line on the same dumps (plain and coloured traces, events, callstacks)
    from vlib import cli
    for label, blob in (('listed', cdata), ('dump', data)):
        for cmd, kw in (('traces', {'color': False}), ('traces', {'color': True}), ('kevents', {}), ('callstacks', {})):
            try:
                text, exc, _ = cli.run(cmd, blob, show_tid=True, **kw)
                out[f'cli_{cmd}_{"colour" if kw.get("color") else "plain"}_{label}'] = \
                    text.split('\n') if exc is None else [f'<raised {type(exc).__name__}: {exc}>']
            except Exception as x:
                out[f'cli_{cmd}_{label}'] = [f'<harness {type(x).__name__}: {x}>']
    # wall-clock timestamps: the caller supplies the time base and the time zone, the host's TZ must not matter
    from datetime import timezone, timedelta
    pw = PyKdebugParser()
    pw.color = False
    pw.numer, pw.denom = 125, 3
    pw.mach_absolute_time = 0x100000000
    pw.usecs_since_epoch = 1600000000 * 10 ** 6 + 123456
    pw.timezone = timezone(timedelta(hours=-7, minutes=-30))
    try:
        out['wall_clock_traces'] = list(pw.formatted_traces(io.BytesIO(data)))[:40]
        out['wall_clock_kevents'] = list(pw.formatted_kevents(io.BytesIO(data)))[:40]
        out['wall_clock_callstacks'] = list(pw.formatted_callstacks(io.BytesIO(data)))[:10]
    except Exception as x:
        out['wall_clock_traces'] = [f'<raised {type(x).__name__}: {x}>']
    # the clock options without a time zone: whatever the tool prints then (raw ticks today) must not follow the host
    pz = PyKdebugParser()
    pz.color = False
    pz.numer, pz.denom, pz.mach_absolute_time, pz.usecs_since_epoch = 125, 3, 0x100000000, 1600000000 * 10 ** 6
    try:
        out['clock_without_zone_traces'] = list(pz.formatted_traces(io.BytesIO(data)))[:40]
        out['clock_without_zone_kevents'] = list(pz.formatted_kevents(io.BytesIO(data)))[:40]
    except Exception as x:
        out['clock_without_zone_traces'] = [f'<raised {type(x).__name__}: {x}>']
    for missing in ('numer', 'denom', 'mach_absolute_time', 'usecs_since_epoch'):
        pm = PyKdebugParser()
        pm.color = False
        pm.numer, pm.denom, pm.mach_absolute_time, pm.usecs_since_epoch = 125, 3, 0x100000000, 1600000000 * 10 ** 6
        pm.timezone = timezone(timedelta(hours=5))
        setattr(pm, missing, None)
        try:
            out[f'clock_without_{missing}'] = list(pm.formatted_traces(io.BytesIO(data)))[:10]
        except Exception as x:
            out[f'clock_without_{missing}'] = [f'<raised {type(x).__name__}: {x}>']
    import plistlib
    from vlib import logs
    strings = logs.Strings(rng)
    raws = [logs.gen_event(rng, strings, ['p', 'pid', 'send']) for _ in range(6)]
    f3 = {'data': wire.V3Spec(entries=[(5, 6, b'logger', b'')], chunks=[[]], blocks=[
        (wire.TAG_LOG_EVENTS, plistlib.dumps({'Events': raws}, fmt=plistlib.FMT_BINARY)),
        (wire.TAG_LOG_STRINGS, plistlib.dumps(strings.plist(), fmt=plistlib.FMT_BINARY))]).build()}
    try:
        out['formatted_logs'] = list(PyKdebugParser().formatted_logs(io.BytesIO(f3['data'])))
        if len(out['formatted_logs']) != len(raws):
            out['formatted_logs'].append(f'<{len(out["formatted_logs"])} lines for {len(raws)} records>')
    except Exception as x:
        out['formatted_logs'] = [f'<raised {type(x).__name__}: {x}>']
    return out


if __name__ == '__main__':
    host, seed = sys.argv[1], int(sys.argv[2])
    if os.environ.get('VERIF_LOGGING') == 'DEBUG':
        import io
        import logging
        logging.basicConfig(level=logging.DEBUG, stream=io.StringIO(), force=True)
    install(host)
    res = workload(seed)
    res['_env_reads'] = sorted(ENV_READS)
    res['_clock_reads'] = sorted(CLOCK_READS)
    res['_file_opens'] = sorted(FILE_OPENS)
    res['_file_probes'] = sorted(FILE_PROBES)
    out_path = os.environ._real.get('VERIF_OUT') if hasattr(os.environ, '_real') else os.environ.get('VERIF_OUT')
    if out_path:                       # (stdout is a terminal in this run: the result goes to a file)
        with open(out_path, 'w') as fd:
            json.dump(res, fd)
    else:
        json.dump(res, sys.stdout)
