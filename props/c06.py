"""C06 - truncated dumps: parsing terminates and reports a prefix of the full result.

Monitor: every byte offset 0..len of generated v2/v3 dumps is a crash point.  Each cut file is read through an
instrumented reader (CountingReader: read-call budget linear in the length) under an interpreter-level logical
clock (StepClock, sys.monitoring LINE events inside pykdebugparser/*), through the event, trace and formatted
pipelines and the click CLI with output limits.  Oracle: whatever was yielded before the stop is a prefix of the
full-file output; no event is reported unless its record lies wholly inside the cut; lines(c) == lines(all)[:c].
"""
import io
import os
import tempfile

from vlib import core, wire, gen, monitors

LEVEL = 'fault_enumeration'
RULE = ('crash points = every truncation offset 0..len of generated v2 and v3 dumps (with/without padding, multi-chunk, '
        'hostile fillers, blocks and logs, decodable scenario content); each cut is run through kevents, traces+str, '
        'formatted_kevents, formatted_traces (plain and coloured) and, on a stride of offsets, the CLI with -c limits; '
        'non-trivial = cut file that was parsed to its stop under the budgets and whose output was compared with the '
        'full-file output; distinct = distinct (file, offset, pipeline)')
QUICK_SHARDS = 8
NO_BB_FLAVOUR = True       # (formatted_kevents prints str(bytes): BytesWarning under -bb on the unchanged tree)
THOROUGH_SHARDS = 16


def ev_key(e):
    return wire.event_tuple(e)


def trace_key(t):
    return (type(t).__name__, str(t), tuple(ev_key(e) for e in t.ktraces))


def pipelines():
    from pykdebugparser.pykdebugparser import PyKdebugParser

    def mk(color=False):
        p = PyKdebugParser()
        p.color = color
        p.show_tid = True
        return p
    return {
        'kevents': (lambda r: mk().kevents(r), ev_key),
        'traces': (lambda r: mk().traces(r), trace_key),
        'formatted_kevents': (lambda r: mk().formatted_kevents(r), str),
        'formatted_traces': (lambda r: mk().formatted_traces(r), str),
        'formatted_traces_color': (lambda r: mk(True).formatted_traces(r), str),
    }


def collect(make, key, reader, budget_steps=None):
    """Items yielded before the stop, the stopping exception (None = normal end)."""
    out = []
    try:
        if budget_steps is None:
            for x in make(reader):
                out.append(key(x))
        else:
            with monitors.StepClock(budget_steps):
                for x in make(reader):
                    out.append(key(x))
    except (monitors.ReadBudgetExceeded, monitors.StepBudgetExceeded) as e:
        return out, e
    except Exception as e:
        return out, e
    return out, None


def whole_records(f, k):
    if f['kind'] == 'v2':
        off = wire.v2_events_offset(f['entries'], f['pad'])
        return max(0, (k - off) // 64)
    return sum(1 for o in f['spec'].record_offsets if o + 64 <= k)


def make_files(rng, ctx):
    files = []
    n = ctx.pick(1, 6)
    for i in range(n):
        evs = gen.gen_scenario_events(rng, n_scenarios=rng.choice((4, 6)))
        # records whose *following* record changes what an already reported line would show: an exec / new-thread pair
        # naming the emitting thread's own pid, a terminate-pid record, then ordinary calls of that thread
        from vlib import histories as H
        tail = []
        for k, tid in enumerate((11, 12)):
            tail += H.on_thread(tid, H.syscall('BSC_getpid', (0, 0, 0, 0), (0, 100 * (k + 1), 0, 0))
                                + H.exec_pair(100 * (k + 1), b'renamed%d' % k, rng.choice((H.NONE, H.ALL)))
                                + H.syscall('BSC_getppid', (0, 0, 0, 0), (0, 1, 0, 0))
                                + H.newthread_pair(5000 + k, 100 * (k + 1), b'again%d' % k)
                                + H.syscall('BSC_getuid', (0, 0, 0, 0), (0, 501, 0, 0)))
        # texts split over several records (a path of three lookup records inside an open, a global string of three): a
        # cut on a record boundary inside them ends the stream normally, with the text half collected
        tail += H.on_thread(13, H.syscall('BSC_open', (0, 0, 0x1a4, 0), (0, 5, 0, 0),
                                          H.lookup(0xfeed, b'/private/var/mobile/Library/Caches/com.apple.demo/Cache.db-wal'))
                            + H.global_string(0x77, b'a global string that needs more than one record to be stored, three in fact')
                            + H.dlopen(0x77))
        cut = ctx.pick(16, 40)
        evs = evs[:cut] + H.materialize(tail, t0=evs[min(cut, len(evs)) - 1].timestamp + 7)
        recs = gen.events_to_records(evs)[:ctx.pick(60, 90)]
        # the map declares the pid the threads' own exec / new-thread records name, so that a name string renames the
        # process of the thread that emitted it (the process column of already reported lines must not change)
        entries = [(tid, 100 * (k + 1), b'proc%d' % k, b'') for k, tid in enumerate((11, 12, 13))]
        pad = rng.choice((0, 8, 64, 100))
        files.append({'kind': 'v2', 'entries': entries, 'pad': pad, 'records': recs,
                      'data': wire.v2_file(entries, pad, recs), 'label': f'v2 scenario content pad={pad}'})
        f3 = gen.gen_v3(rng, n=3, chunks=gen.split_chunks(rng, recs[:24], rng.choice((1, 2, 3))), decoys=(i == 0))
        f3['records'] = recs[:24]
        f3['label'] = f'v3 scenario content chunks={[len(c) for c in f3["spec"].chunks]}'
        files.append(f3)
    # scale ladder: dumps larger than any buffer a reader may use (~100 KB); their cut offsets are sampled around the
    # powers of two (a block-wise reader misbehaves at its block edges) and at random
    big_evs = []
    t0 = 1000
    while len(big_evs) < ctx.pick(1500, 6000):
        part = gen.gen_scenario_events(rng, n_scenarios=8)
        part = H.materialize([(e.tid, (e.eventid, e.func_qualifier, e.data)) for e in part], t0=t0)
        t0 = part[-1].timestamp + 7
        big_evs += part
    big_recs = gen.events_to_records(big_evs)
    entries = [(tid, 100 * (k + 1), b'proc%d' % k, b'') for k, tid in enumerate((11, 12, 13))]
    bigs = [{'kind': 'v2', 'entries': entries, 'pad': 8, 'records': big_recs, 'data': wire.v2_file(entries, 8, big_recs),
             'label': f'v2 large dump ({len(big_recs)} records)'}]
    f3 = gen.gen_v3(rng, n=3, chunks=gen.split_chunks(rng, big_recs, 3))
    f3['records'] = big_recs
    f3['label'] = f'v3 large dump ({len(big_recs)} records, chunks={[len(c) for c in f3["spec"].chunks]})'
    bigs.append(f3)
    for f in bigs:
        n = len(f['data'])
        offs = {n, n - 1, n - 63, n - 64, n - 65}
        for b in (4096, 8192, 16384, 32768, 65536, 131072, 262144):
            offs |= {b + d for d in (-65, -64, -63, -33, -32, -1, 0, 1, 31, 32, 33, 63, 64, 65) if 0 <= b + d <= n}
        offs |= {rng.randrange(n + 1) for _ in range(ctx.pick(24, 400))}
        f['offsets'] = sorted(offs)
        files.append(f)
    # alignment rung: a version-2 dump whose record area begins on a power-of-two boundary of the stream (0x120 + 32 * 1015
    # thread-map entries = 32768: a multiple of every block size up to 32 KiB; 119 entries give 4096, 247 give 8192) - a reader that takes
    # whole blocks from an aligned position meets the cut inside its block.  Cuts: every byte of the first three
    # records and of the last one, and a few inside the map.
    for n_threads in ctx.pick((119, 1015), (119, 247, 1015, 2039)):
        entries = [(1000 + i, 100 + i % 3, b'proc%d' % (i % 3), b'') for i in range(n_threads)]
        recs = gen.events_to_records(gen.gen_scenario_events(rng, n_scenarios=4))[:12]
        data = wire.v2_file(entries, 0, recs)
        area = len(data) - 64 * len(recs)
        f = {'kind': 'v2', 'entries': entries, 'pad': 0, 'records': recs, 'data': data,
             'label': f'v2 record area at stream offset {area} ({n_threads} thread-map entries)',
             'offsets': sorted(set(range(area - 2, area + 193)) | set(range(len(data) - 66, len(data) + 1)) |
                               {0, 100, 0x120, 0x120 + 32 * 7 + 5, area // 2}),
             'pipelines': ('kevents', 'formatted_kevents', 'formatted_traces')}
        files.append(f)
        if area % 4096:
            raise core.Inconclusive(f'alignment rung: record area at {area}')
    # source-code-like texts in names: the coloured listing runs every line through a C lexer, whose rules look AHEAD for
    # braces, semicolons, comment and string ends - a line is coloured on its own, never together with the lines that happen
    # to follow it (cuts on every record boundary of such a dump, coloured and plain trace lines)
    syntax = (b'sh; int job(1)', b'{pool}', b'int main(void)', b'/* worker', b'*/ done', b'"quoted', b'x = y;', b'if (a) {',
              b'}', b'#define A(', b'struct s', b'// note', b"'c", b'@interface Foo', b'void f()')
    seq, k = [], 0
    for rep in range(2):
        names = list(syntax)
        rng.shuffle(names)
        for text in names:
            k += 1
            seq += H.on_thread(11, H.exec_pair(100, text[:32], rng.choice((H.NONE, H.ALL))) if k % 3 == 0 else
                               H.thread_name(text) if k % 3 == 1 else H.global_string(0x900 + k, text))
            if k % 4 == 0:
                seq += H.on_thread(11, H.syscall('BSC_getpid', (0, 0, 0, 0), (0, 100, 0, 0)))
    # (the pair that needs no luck: a name that ends a statement and then looks like the head of a function definition -
    # "sh; int job(1)" - and, a few lines further down with no semicolon in between, a name holding an opening brace)
    for head in (b'sh; int job(1)', b'}; char *p(void)'):
        for brace in (b'{pool}', b'if (a) {'):
            for gap in (0, 2, 13):
                seq += H.on_thread(11, H.exec_pair(100, head, H.NONE))
                for _ in range(gap):
                    seq += H.on_thread(11, H.syscall('BSC_getpid', (0, 0, 0, 0), (0, 100, 0, 0)))
                seq += H.on_thread(11, H.thread_name(brace) + H.global_string(0x990, b'plain; text'))
    sx = gen.events_to_records(H.materialize(seq, t0=1000))
    data = wire.v2_file([(11, 100, b'proc0', b'')], 8, sx)
    area = len(data) - 64 * len(sx)
    files.append({'kind': 'v2', 'entries': [(11, 100, b'proc0', b'')], 'pad': 8, 'records': sx, 'data': data,
                  'label': f'v2 dump of {len(sx)} records whose names look like source code',
                  'offsets': sorted({area + 64 * j for j in range(len(sx) + 1)} | {area + 64 * j + 31 for j in range(0, len(sx), 5)}),
                  'pipelines': ('formatted_traces', 'formatted_traces_color')})
    # record-count rung: a reader that takes the records of a version-2 dump B at a time (into a buffer it re-uses) meets a
    # cut inside a record of its SECOND, third ... block - beyond the first 256 / 1024 / 4096 / 16384 (/ 65536) records; the
    # records are all different, so bytes left over from an earlier block cannot pass for the missing ones
    blocks = ctx.pick((256, 1024, 4096, 16384), (256, 1024, 4096, 16384, 65536))
    many = gen.gen_records(rng, blocks[-1] + 40, first_nonzero=True)
    data = wire.v2_file([(11, 100, b'proc0', b'')], 8, many)
    area = len(data) - 64 * len(many)
    f = {'kind': 'v2', 'entries': [(11, 100, b'proc0', b'')], 'pad': 8, 'records': many, 'data': data,
         'label': f'v2 dump of {len(many)} distinct records (cuts inside records beyond the first {list(blocks)})',
         'offsets': sorted({area + 64 * (b + j) + r for b in blocks for j in (0, 1, 7, 39) for r in (1, 7, 32, 51, 52, 63)} |
                           {area + 64 * (2 * b + 3) + 17 for b in blocks[:-1]}),
         'pipelines': ('kevents',)}
    files.append(f)
    # a version-3 dump whose events chunks declare a length that is not a whole number of records (fill bytes after the
    # last record); whatever the tool makes of the complete file, every cut of it must stop and report a prefix of that
    evs = gen.gen_scenario_events(rng, n_scenarios=3)
    recs = gen.events_to_records(evs)[:12]
    spec = wire.V3Spec(entries=[(11, 100, b'proc0', b'')], chunks=[recs[:5], recs[5:9], recs[9:]])
    spec.chunk_slack = [bytes(16), b'\x01' * 8, bytes(40)]
    files.append({'kind': 'v3', 'entries': spec.entries, 'records': recs[:5], 'spec': spec, 'data': spec.build(), 'model': None,
                  'label': 'v3 chunk lengths with fill bytes', 'lenient_full': True})
    # raw-bytes files: arbitrary record content (event pipelines only make sense, traces still must be a prefix)
    f = gen.gen_v2(rng, m=ctx.pick(6, 24), n=2)
    f['label'] = 'v2 arbitrary record bytes'
    files.append(f)
    f = gen.gen_v3(rng, m=ctx.pick(6, 24), n=2, decoys=True)
    f['label'] = 'v3 arbitrary record bytes, random blocks, look-alike sections inside the stackshot'
    files.append(f)
    return files


def check_cut(res, f, fi, k, name, make, key, full, clocked, pieces=False):
    data = f['data'][:k]
    # (pieces: a stream whose read() returns fewer bytes than asked for although more follow.  NOT used: the thorough tier
    # showed that the unchanged parser - like the container library under it - takes a read of n bytes to deliver n bytes
    # unless the data ends; with short reads it skips the wrong number of bytes.  The property quantifies over where a
    # dump is cut, not over streams that deliver it in pieces, so this dimension was withdrawn - see DESIGN.md section 8.)
    edges = ()
    if pieces:
        edges = sorted({(k * 7919 + fi * 31) % k or 1, max(1, k - 1 - (k * 31 + fi) % 64)})
        res.count('cuts_delivered_in_pieces')
    reader = monitors.CountingReader(data, edges=edges)
    budget = 2000 * len(data) + 1000000 if clocked else None
    got, exc = collect(make, key, reader, budget)
    res.case((fi, k, name))
    res.count('cuts_executed')
    res.count(f'cuts_{f["kind"]}')
    if clocked:
        res.count('cuts_under_step_clock')
    case = {'file': f['data'], 'offset': k, 'pipeline': name, 'piece_edges': list(edges)}
    if isinstance(exc, (monitors.ReadBudgetExceeded, monitors.StepBudgetExceeded)):
        res.violation('c06-no-termination', f'{f["label"]} cut at {k}/{len(f["data"])} ({name}): {exc} '
                      f'({reader.n_reads} reads, {reader.n_empty} of them empty)', case)
        f.setdefault('spinning_offsets', set()).add(k)
        return
    res.count('stopped_with_error' if exc is not None else 'stopped_normally')
    if got != full[:len(got)]:
        j = next(i for i, (a, b) in enumerate(zip(got, full + [None] * len(got))) if a != b)
        res.violation(f'c06-not-a-prefix-{name}', f'{f["label"]} cut at {k}: item {j} of the truncated run differs from '
                      f'the full run or does not exist there: {str(got[j])[:200]}', case)
        return
    if name in ('kevents', 'formatted_kevents'):
        w = whole_records(f, k)
        if len(got) > w:
            res.violation('c06-fabricated-event', f'{f["label"]} cut at {k}: {len(got)} events reported but only {w} '
                          f'records lie wholly inside the cut', case)
        elif len(got) == w:
            res.count('cuts_reporting_every_whole_record')
    res.count('reads_observed', reader.n_reads)
    res.notes['max_reads_per_byte'] = max(res.notes.get('max_reads_per_byte', 0),
                                          round(reader.n_reads / max(1, len(data)), 2))


def cli_checks(res, f, fi, offsets, tmpdir, fulls):
    from click.testing import CliRunner
    from pykdebugparser.__main__ import cli
    runner = CliRunner()
    path = os.path.join(tmpdir, f'f{fi}.bin')
    api = {'kevents': 'formatted_kevents', 'traces': 'formatted_traces'}
    cmds = [['kevents', '--show-tid'], ['traces', '--no-color', '--show-tid'], ['traces'], ['callstacks']]
    if f['kind'] == 'v3':
        cmds.append(['logs'])
    for cmd in cmds:
        with open(path, 'wb') as fd:
            fd.write(f['data'])
        r = runner.invoke(cli, cmd[:1] + [path] + cmd[1:])
        if r.exception is not None and not isinstance(r.exception, SystemExit):
            res.violation(f'c06-cli-full-raises-{core.exc_name(r.exception)}', f'CLI {cmd} on the complete file: '
                          f'{r.exception!r}', {'file': f['data'], 'cmd': cmd})
            continue
        full_lines = r.stdout.split('\n')[:-1]
        # -c counts items; a callstack item is a header line plus one line per frame
        sizes = None
        if cmd[0] == 'callstacks':
            from pykdebugparser.pykdebugparser import PyKdebugParser
            try:
                sizes = [len(x.split('\n')) for x in PyKdebugParser().formatted_callstacks(io.BytesIO(f['data']))]
            except Exception:
                sizes = None
            if sizes is None or sum(sizes) != len(full_lines):
                res.violation('c06-cli-differs-from-api', f'{f["label"]}: `callstacks` prints {len(full_lines)} lines, the API '
                              f'formats {sizes and sum(sizes)} lines', {'file': f['data'], 'cmd': cmd})
                continue
        if '--show-tid' in cmd and r.stdout != ''.join(l + '\n' for l in fulls[api[cmd[0]]]):
            res.violation('c06-cli-differs-from-api', f'{f["label"]}: `{" ".join(cmd)}` prints {len(full_lines)} lines that '
                          f'are not the {len(fulls[api[cmd[0]]])} formatted lines of the API, in order',
                          {'file': f['data'], 'cmd': cmd})
        res.count('cli_full_outputs_compared_with_api')
        for k in offsets:
            if k in f.get('spinning_offsets', ()):
                continue    # already reported as non-terminating by the instrumented reader; the CLI would hang
            with open(path, 'wb') as fd:
                fd.write(f['data'][:k])
            for c in (-1, 0, 1, 3, len(full_lines) + 5):
                with monitors.StepClock(4000 * k + 3000000):
                    r = runner.invoke(cli, cmd[:1] + [path] + cmd[1:] + ['-c', str(c)])
                lines = r.stdout.split('\n')[:-1]
                res.count('cli_runs')
                res.case((fi, k, tuple(cmd), c))
                if isinstance(r.exception, monitors.StepBudgetExceeded):
                    res.violation('c06-no-termination', f'{f["label"]} cut at {k}: CLI `{" ".join(cmd)} -c {c}`: '
                                  f'{r.exception}', {'file': f['data'], 'offset': k, 'cmd': cmd, 'count': c})
                    f.setdefault('spinning_offsets', set()).add(k)
                    break
                # on error click prints nothing more to stdout; output lines are those printed before the stop
                if r.exception is not None and not isinstance(r.exception, SystemExit):
                    res.count('cli_stopped_with_error')
                limit = len(full_lines) if c < 0 else c if sizes is None else sum(sizes[:c])
                if lines != full_lines[:len(lines)] or len(lines) > limit:
                    res.violation('c06-cli-count-changes-lines', f'{f["label"]} cut at {k}: `{" ".join(cmd)} -c {c}` '
                                  f'printed {len(lines)} lines that are not the first lines of the unlimited '
                                  f'complete output', {'file': f['data'], 'offset': k, 'cmd': cmd, 'count': c})
                if k == len(f['data']) and len(lines) != min(limit, len(full_lines)):
                    res.violation('c06-cli-count-short', f'{f["label"]} complete file: `{" ".join(cmd)} -c {c}` printed '
                                  f'{len(lines)} lines, expected {min(limit, len(full_lines))}',
                                  {'file': f['data'], 'offset': k, 'cmd': cmd, 'count': c})
    os.unlink(path)


def run(ctx):
    res = core.Result()
    # every shard builds the same files (same seed) and takes its share of the offsets
    frng = core.Ctx('C06', ctx.tier, ctx.seed).rng
    files = make_files(frng, ctx)
    pl = pipelines()
    tmpdir = tempfile.mkdtemp(prefix='verif-c06-')
    try:
        for fi, f in enumerate(files):
            fulls = {}
            for name, (make, key) in pl.items():
                full, exc = collect(make, key, io.BytesIO(f['data']))
                fulls[name] = full
                if name == 'kevents' and not f.get('lenient_full') and (exc is not None or len(full) != len(f['records'])):
                    res.violation('c06-full-file', f'{f["label"]}: complete file yields {len(full)} events '
                                  f'({exc!r}), expected {len(f["records"])}', {'file': f['data']})
            res.count('files')
            res.count('file_bytes', len(f['data']))
            offsets = [k for i, k in enumerate(f.get('offsets', range(len(f['data']) + 1))) if ctx.mine(i if 'offsets' in f else k)]
            if 'offsets' in f:
                res.count('large_dump_cuts', len(offsets))
            for k in offsets:
                for name, (make, key) in pl.items():
                    if name == 'formatted_traces_color' and k % 5 and 'pipelines' not in f:
                        continue
                    if 'pipelines' in f and name not in f['pipelines']:
                        continue
                    clocked = (name == 'kevents' or k % 7 == 0) and len(f.get('spinning_offsets', ())) < 3
                    check_cut(res, f, fi, k, name, make, key, fulls[name], clocked)
            stride = ctx.pick(97, 23)
            cli_offsets = [k for k in offsets if k % stride == 0 or k == len(f['data'])]
            cli_checks(res, f, fi, cli_offsets, tmpdir, fulls)
    finally:
        try:
            os.rmdir(tmpdir)
        except OSError:
            pass
    if ctx.shard == 0:
        for f in files[:3]:
            res.sample({'file': f['label'], 'length': len(f['data']), 'records': len(f['records']),
                        'crash_points': len(f['data']) + 1})
    res.assumptions += ['termination is decided as bounded progress: at most 20*len+10000 read calls and '
                        '2000*len+10^6 interpreter lines inside pykdebugparser per cut file',
                        'v2 files start their first record with a non-zero byte (open finding F02)',
                        'for v3 the prefix claim is on events/traces/lines of events (logs come after all sections)']
    res.require('cuts_executed', 50)
    res.require('cuts_under_step_clock', 10)
    res.require('large_dump_cuts', 10)
    return res


def finalize(res):
    res.exhaustive = True   # every offset of every small generated file was executed (the files themselves and the
    # offsets of the two ~100 KB dumps of the scale rung are sampled)
    res.require('stopped_with_error', 1)
    res.require('stopped_normally', 1)
    res.require('cli_runs', 1)


def replay(case, ctx):
    res = core.Result()
    pl = pipelines()
    data = case['file']
    name = case.get('pipeline', 'kevents')
    make, key = pl[name]
    full, _ = collect(make, key, io.BytesIO(data))
    f = {'kind': 'v2' if data[:4] == wire.V2_MAGIC else 'v3', 'data': data, 'label': 'replay', 'entries': [], 'pad': 0}
    k = case.get('offset', len(data))
    reader = monitors.CountingReader(data[:k], edges=case.get('piece_edges', ()))
    got, exc = collect(make, key, reader, 2000 * k + 1000000)
    if isinstance(exc, (monitors.ReadBudgetExceeded, monitors.StepBudgetExceeded)):
        res.violation('c06-no-termination', f'cut at {k}: {exc}', case)
    elif got != full[:len(got)]:
        res.violation(f'c06-not-a-prefix-{name}', f'cut at {k}: output is not a prefix of the full output', case)
    return res
