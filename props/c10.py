"""C10 - syscall results: errors take precedence and come only from the END record.

Monitor: differential observation at the rendering boundary.  For every decodable BSD syscall the real pipeline is
run while varying only the END record, then only the START record, then only unrelated nested records.  The text
is split into call part and result part; with a non-zero error word the result must read 'errno: NAME(e)' or
'errno: e' with exactly e and nothing else, with a zero error word it must show no errno and only renderings of
END words; the call part must not react to the END record and the result part must not react to anything else.
"""
import re

from vlib import core, ev, domain, histories as H, render, stream

LEVEL = 'exploration'
RULE = ('every decodable BSD syscall x START tuples x END tuples (error word: 0, every Darwin errno 1..106, unknown codes, '
        '2^31, 2^63, 2^64-1; return words arbitrary); non-trivial = rendering whose result part was parsed and compared; '
        'distinct = distinct (decoder, START tuple, END tuple)')
QUICK_SHARDS = 8
THOROUGH_SHARDS = 16

# the statement's exclusions: calls that cannot fail or do not return
DECLARED_EXCLUSIONS = {'BSC_getpid', 'BSC_getuid', 'BSC_geteuid', 'BSC_getppid', 'BSC_getegid', 'BSC_getgid',
                       'BSC_getpgrp', 'BSC_umask', 'BSC_sync', 'BSC_sys_getdtablesize', 'BSC_getlogin', 'BSC_execve',
                       'BSC_vfork', 'BSC_bsdthread_create', 'BSC_abort_with_payload'}
ERRNO_RE = re.compile(r', errno: (?:([A-Za-z0-9_]+)\((\d+)\)|(\d+))$')
HUGE = (107, 200, 4000, 1 << 31, 1 << 63, (1 << 64) - 1)
# negative numbers as the kernel's int / long would carry them, and the values just around the word boundaries
NEGATIVE = tuple((1 << 64) - k for k in range(1, 9)) + tuple((1 << 32) - k for k in range(1, 9)) + \
    ((1 << 32), (1 << 32) + 1, (1 << 31) - 1, (1 << 31) + 1, (1 << 63) - 1, (1 << 63) + 1, 0xfffffffe00000000 | 2)


class NoTraceForTheCall(Exception):
    pass


def render_outer(name, start, end, junk=()):
    parser = ev.new_parser()
    out = None
    for e in H.materialize(H.on_thread(6, H.syscall(name, start, end, list(junk)))):
        t = parser.feed(e)
        if t is not None and t.ktraces[0].eventid == ev.eid(name) and t.ktraces[0].func_qualifier == 1:
            out = str(t)
    if out is None:
        raise NoTraceForTheCall(f'{name}: the START..END pair of the call produced no trace that begins with its START')
    return out


def split_result(text):
    """(call part, result part) - the result part is what follows 'name(...)' ('' or ', ...')."""
    cp = render.call_part(text)
    if cp is None:
        return None, None
    return cp, text[len(cp):]


def check_decoder(res, ctx, rng, name):
    start = domain.distinct_words(rng, 4)
    spec = domain.TABLE.get(name, {})
    for (w, idx), s in spec.items():
        if w == 'S':
            start[idx] = s(rng) if callable(s) else rng.choice(s)
    if name in ('BSC_setsockopt', 'BSC_getsockopt') and start[1] == domain.SOL_SOCKET_DARWIN:
        start[2] = rng.choice(domain.SOCKOPT_NAMES)
    ret = [w | (1 << 63) if rng.random() < 0.5 else w for w in domain.distinct_words(rng, 3)]
    case = {'name': name, 'start': start}

    def r(s, e, junk=()):
        return render_outer(name, s, e, junk)
    try:
        ok_text = r(start, [0] + ret)
        err_text = r(start, [13] + ret)
    except Exception as x:
        res.violation(f'c10-raises-{core.exc_name(x)}', f'{name}: {x!r}', case)
        return
    if ok_text is None or render.call_part(ok_text) is None:
        res.violation('c10-no-call-shape', f'{name}: {ok_text!r}', case)
        return
    reacts = ok_text != err_text
    if not reacts:
        res.notes.setdefault('decoders_not_reacting_to_the_error_word', []).append(name)
        if name not in DECLARED_EXCLUSIONS:
            res.violation('c10-error-word-ignored', f'{name}: the text does not react to the END record\'s error word '
                          f'({ok_text!r}) and the call is not one that cannot fail', case)
        res.count('excluded_decoders_observed')
        return
    call_ok, res_ok = split_result(ok_text)
    # --- zero error word: no errno, success values are renderings of END words only
    if 'errno' in res_ok:
        res.violation('c10-errno-on-success', f'{name}: error word 0 but the text reads {ok_text!r}', case)
        return
    if res_ok and not res_ok.startswith(', '):
        res.violation('c10-result-shape', f'{name}: result part {res_ok!r}', case)
        return
    nums = [int(x, 16) if x.lower().startswith('0x') else int(x) for x in re.findall(r'(?<![\w.])(-?0x[0-9a-fA-F]+|-?\d+)\b', res_ok)]
    def full(w):
        return {w, w - (1 << 64) if w >> 63 else w}
    for v in nums:
        from_end = any(v in full(w) for w in ret)
        if not from_end and any(v in render.renderings(w) for w in ret):
            res.violation('c10-success-value-truncated', f'{name}: result {res_ok!r} shows {v}, only the low bits of an END '
                          f'word {[hex(w) for w in ret]}', case)
            return
        from_start = [j for j in range(4) if v in render.renderings(start[j])]
        if not from_end and from_start:
            res.violation('c10-success-value-from-start', f'{name}: result {res_ok!r} shows START word {from_start[0]}',
                          case)
            return
        if not from_end:
            res.violation('c10-success-value-not-from-end', f'{name}: result {res_ok!r} shows {v}, not a rendering of an '
                          f'END word {[hex(w) for w in ret]}', case)
            return
    res.count('success_results_checked')
    # boundary return words: zero (a read at end of file, descriptor 0), around 2^31 / 2^32, the ends of the range - a
    # successful call never shows an errno and any number it shows is a full rendering of an END word
    for w in RETURN_BOUNDARIES:
        for alt in ([0, w] + ret[1:], [0, w, w, w]):
            try:
                t = r(start, alt)
            except Exception as x:
                res.violation(f'c10-raises-{core.exc_name(x)}', f'{name}: {x!r} with END words {alt}', dict(case, end=alt))
                return
            cp, rp = split_result(t)
            res.count('boundary_return_words_checked')
            if 'errno' in rp:
                res.violation('c10-errno-on-success', f'{name}: error word 0, return word {hex(w)}: the text reads {t!r}',
                              dict(case, end=alt))
                return
            if cp != call_ok:
                res.violation('c10-call-part-depends-on-end', f'{name}: call part {cp!r} vs {call_ok!r} when only the END '
                              f'record changed', dict(case, end=alt))
                return
            for v in [int(x, 16) if x.lower().startswith('0x') else int(x)
                      for x in re.findall(r'(?<![\w.])(-?0x[0-9a-fA-F]+|-?\d+)\b', rp)]:
                if not any(v in full(x) for x in alt[1:]):
                    res.violation('c10-success-value-truncated' if any(v in render.renderings(x) for x in alt[1:]) else
                                  'c10-success-value-not-from-end', f'{name}: END words {[hex(x) for x in alt]}: result '
                                  f'{rp!r} shows {v}', dict(case, end=alt))
                    return
    if res_ok:
        # non-constant in the return word
        alt = [0] + [w ^ 0x5a5a5a5a5a5a5a5a for w in ret]
        alt_text = r(start, alt)
        zero_text = r(start, [0, 0, 0, 0])
        if alt_text == ok_text and zero_text == ok_text:
            res.violation('c10-success-value-constant', f'{name}: success value does not react to the END return words: '
                          f'{ok_text!r}', case)
            return
        res.count('success_values_shown')
    # --- non-zero error words
    codes = list(range(1, 107)) if ctx.thorough or name.endswith(('read', 'open', 'pipe')) else \
        rng.sample(range(1, 107), 12) + [35, 106]
    aliased = [(1 << sh) | rng.randrange(1, 107) for sh in (8, 16, 31, 32, 63)] + [0xffffffff00000000 | 2]
    for e in codes + list(HUGE) + aliased + list(NEGATIVE):
        try:
            t = r(start, [e] + ret)
        except Exception as x:
            res.violation(f'c10-raises-{core.exc_name(x)}', f'{name}: {x!r} with error word {e}', dict(case, error=e))
            return
        res.case((name, tuple(start), e))
        res.count('error_renderings_checked')
        m = ERRNO_RE.search(t)
        if not m:
            res.violation('c10-error-not-shown', f'{name}: error word {e} but the text reads {t!r}', dict(case, error=e))
            return
        shown = int(m.group(2) if m.group(2) is not None else m.group(3))
        if shown != e:
            res.violation('c10-wrong-error-code', f'{name}: error word {e} shown as {m.group(0)!r}', dict(case, error=e))
            return
        if t[:m.start()] != call_ok:
            res.violation('c10-error-does-not-take-precedence' if t[:m.start()].startswith(call_ok) else
                          'c10-call-part-depends-on-end', f'{name}: with error word {e} the text is {t!r}; call part on '
                          f'success is {call_ok!r}', dict(case, error=e))
            return
    # --- result part depends only on the END record: vary START and nested records
    for variant in range(ctx.pick(3, 10)):
        s2 = list(start)
        j = rng.randrange(4)
        if ('S', j) in spec:
            continue
        s2[j] = domain.distinct_words(rng, 1)[0]
        if name in ('BSC_setsockopt', 'BSC_getsockopt') and s2[1] == domain.SOL_SOCKET_DARWIN \
                and s2[2] not in domain.SOCKOPT_NAMES:
            s2[2] = rng.choice(domain.SOCKOPT_NAMES)   # SOL_SOCKET => the option must be a declared one (domain)
        # unrelated same-thread records nested in the window: a few, or (one variant per decoder) several hundred -
        # a long-running call sees that many records of its own thread before it returns
        junk = H.unrelated(rng, rng.randrange(0, 3) if variant else rng.choice((260, 300, 520)))
        if not variant:
            res.count('long_windows')
        for end in ([0] + ret, [22] + ret):
            try:
                t = r(s2, end, junk)
            except Exception as x:
                res.violation(f'c10-raises-{core.exc_name(x)}', f'{name}: {x!r}', case)
                return
            cp, rp = split_result(t)
            want = res_ok if end[0] == 0 else split_result(r(start, end))[1]
            res.count('start_and_nesting_variants')
            if rp != want:
                res.violation('c10-result-depends-on-start-or-nesting', f'{name}: result part {rp!r} vs {want!r} when only '
                              f'START word {j} / unrelated nested records changed', dict(case, start2=s2))
                return
    res.case((name, tuple(start), 0))
    res.count('decoders_checked')
    if len(STREAM_CASES) < 4000:
        for end in ([0] + ret, [rng.randrange(1, 107)] + ret):
            STREAM_CASES.append((H.syscall(name, start, end), [r(start, end)], f'{name} end={[hex(w) for w in end]}'))


STREAM_CASES = []
RETURN_BOUNDARIES = (0, 1, (1 << 31) - 1, 1 << 31, (1 << 32) - 1, 1 << 32, (1 << 63) - 1, 1 << 63, (1 << 64) - 1)

# window sizes for the scale ladder: a call that blocks for a long time returns after thousands of records of its thread
SCALE_QUICK = H.SCALE_RUNGS_QUICK
SCALE_THOROUGH = H.SCALE_RUNGS_THOROUGH


def scale_windows(res, ctx, rng, names):
    """The result part comes from the END record however many records of the same thread lie between START and END."""
    for n in [n for i, n in enumerate(ctx.pick(SCALE_QUICK, SCALE_THOROUGH)) if ctx.mine(i)]:
        name = rng.choice(names)
        start = domain.gen_words(rng, name, 'S')
        ret = domain.gen_words(rng, name, 'E')[1:]
        case = {'name': name, 'start': start, 'nested_records': n - 2}
        for end in ([0] + ret, [rng.randrange(1, 107)] + ret):
            try:
                small = render_outer(name, start, end)
                # the window holds n records, START and END included (H.stretched_events)
                events, own = H.stretched_events(H.syscall(name, start, end), 1, n, rng)
                parser, big = ev.new_parser(), None
                for e in events:
                    t = parser.feed(e)
                    if t is not None and id(t.ktraces[0]) in own and t.ktraces[0].func_qualifier == 1:
                        big = str(t)
            except Exception as x:
                res.violation(f'c10-raises-{core.exc_name(x)}', f'{name} with {n} nested records: {x!r}', case)
                return
            res.case((name, 'scale', n, end[0]))
            res.count('scale_windows')
            if small != big:
                res.violation('c10-result-depends-on-start-or-nesting', f'{name}: with {n} unrelated same-thread records '
                              f'between START and END the text is {big!r}, without them {small!r}', dict(case, end=end))
                return


SMALL_ERRNO_RE = re.compile(r'errno: (?:[A-Z0-9_]+\((\d+)\)|(\d+))')


def small_starts(res, ctx, rng, names):
    """Error precedence against the START record: every decoder x every small START pattern (each free argument word 0 or
    1 - null ports, null pointers, flags of one: the values real calls are full of) x every error number Darwin defines
    (and 0, and one beyond).  Whatever the arguments, a non-zero error word shows exactly that errno and no success
    value; a zero one shows none."""
    import itertools
    for name in names:
        spec = domain.TABLE.get(name, {})
        base = domain.gen_words(rng, name, 'S')
        parser = ev.new_parser()
        ts = 1000
        for pat in itertools.product((0, 1), repeat=4):
            start = [base[i] if ('S', i) in spec else pat[i] for i in range(4)]
            if name in ('BSC_setsockopt', 'BSC_getsockopt'):
                start[2] = base[2]
            for err in range(0, 108):
                ts += 14
                try:
                    parser.feed(ev.mk(ts, name, 1, start, 6))
                    t = parser.feed(ev.mk(ts + 7, name, 2, (err, 5, 0, 0), 6))
                    text = str(t) if t is not None else None
                except Exception as x:
                    res.violation(f'c10-raises-{core.exc_name(x)}', f'{name} START {start} error {err}: {x!r}',
                                  {'name': name, 'start': start, 'end': [err, 5, 0, 0]})
                    return
                res.count('small_start_renderings')
                part = split_result(text)[1] if text else None
                m = SMALL_ERRNO_RE.search(part or '')
                shown = int(m.group(1) or m.group(2)) if m else None
                if text is None or shown != (err or None):
                    res.violation('c10-error-word-not-shown' if err else 'c10-errno-on-success',
                                  f'{name}: START {start}, END error word {err}: the line reads {text!r}',
                                  {'name': name, 'start': start, 'end': [err, 5, 0, 0]})
                    return
        res.case(('small-starts', name))


def flag_and_opcode_starts(res, ctx, rng, names):
    """The result part against WELL-FORMED operation / flag words in the START record: one flag bit (bit 8..31) over a small
    opcode (0..7) - 0x01000002, 0x00010001, 0x80000003 ... are what lock, wait, control and option calls are passed; boundary
    values, 0 / 1 patterns and random 64-bit words never look like them.  Every decoder x every such word in argument 0
    (and one per bit in the others) x END records that succeed with a small negative, a zero or a small return word or
    fail: the result part is the one the same END record gives after the decoder's plain START, an errno is shown exactly
    when the error word is non-zero."""
    ends = ((0, 0xfffffffc, 0, 0), (0, 0xfffffffffffffffc, 0, 0), (0, 3, 0, 0), (4, 0xfffffffc, 0, 0))
    for name in names:
        spec = domain.TABLE.get(name, {})
        base = domain.gen_words(rng, name, 'S')
        parser = ev.new_parser()
        ts = 1000
        want = {}
        words = [(0, (1 << k) | s) for k in range(8, 32) for s in range(8)] + \
                [(j, (1 << k) | 2) for j in (1, 2, 3) for k in range(8, 32)]
        for j, w in [(None, None)] + words:
            if j is not None and (('S', j) in spec or (name in ('BSC_setsockopt', 'BSC_getsockopt') and j in (1, 2))):
                continue
            start = list(base)
            if j is not None:
                start[j] = w
            for end in ends:
                ts += 14
                try:
                    parser.feed(ev.mk(ts, name, 1, start, 6))
                    t = parser.feed(ev.mk(ts + 7, name, 2, end, 6))
                    text = str(t) if t is not None else None
                except Exception as x:
                    res.violation(f'c10-raises-{core.exc_name(x)}', f'{name} START {start} END {list(end)}: {x!r}',
                                  {'name': name, 'start': start, 'end': list(end)})
                    return
                res.count('flag_and_opcode_start_renderings')
                part = split_result(text)[1] if text else None
                if j is None:
                    want[end] = part
                    continue
                m = SMALL_ERRNO_RE.search(part or '')
                shown = int(m.group(1) or m.group(2)) if m else None
                if text is None or (name not in DECLARED_EXCLUSIONS and shown != (end[0] or None)):
                    res.violation('c10-error-word-not-shown' if end[0] else 'c10-errno-on-success',
                                  f'{name}: START {[hex(x) for x in start]}, END {[hex(x) for x in end]}: the line reads {text!r}',
                                  {'name': name, 'start': start, 'end': list(end)})
                    return
                if part != want[end]:
                    res.violation('c10-result-depends-on-start-or-nesting', f'{name}: END {[hex(x) for x in end]} gives the result '
                                  f'part {part!r} after START {[hex(x) for x in start]} and {want[end]!r} after START '
                                  f'{[hex(x) for x in base]}', {'name': name, 'start': start, 'end': list(end)})
                    return
        res.case(('flag-and-opcode-starts', name))


def customised_errno_table(res, ctx, rng, names):
    """The errno-NAME table is a public module-level dict of the library (bsd.DARWIN_ERRORCODE) and a caller may complete it:
    add the codes a newer release defines, give every number a name (0 included: 'no error'), or put a mapping with a
    default in its place.  Names are presentation; WHETHER a call failed is the END record's error word alone - zero shows
    no errno and the success value, non-zero shows exactly that code and no success value."""
    import collections
    from pykdebugparser.trace_handlers import bsd
    original = bsd.DARWIN_ERRORCODE
    variants = {
        'extended in place with 0 and 107': lambda: original.update({0: 'ENOERROR', 107: 'ENOTCAPABLE'}),
        'replaced by a defaultdict': lambda: setattr(bsd, 'DARWIN_ERRORCODE', collections.defaultdict(lambda: 'E?', saved)),
        'replaced by a dict naming every number 0..255': lambda: setattr(bsd, 'DARWIN_ERRORCODE', {**{i: f'E{i}' for i in range(256)}, **saved}),
    }
    saved = dict(original)
    sample = [n for i, n in enumerate(names) if i % 5 == 0 and n not in DECLARED_EXCLUSIONS] + ['BSC_pipe', 'BSC_read']
    try:
        for label, apply in variants.items():
            original.clear()
            original.update(saved)
            bsd.DARWIN_ERRORCODE = original
            apply()
            for name in sample:
                start = domain.gen_words(rng, name, 'S')
                for end in ((0, 5, 6, 0), (0, 0, 0, 77), (13, 5, 6, 0), (107, 5, 0, 0), (200, 5, 0, 0)):
                    try:
                        text = render_outer(name, start, list(end))
                    except Exception as x:
                        res.violation(f'c10-raises-{core.exc_name(x)}', f'{name} with the errno-name table {label}: {x!r}',
                                      {'name': name, 'start': start, 'end': list(end)})
                        return
                    res.count('renderings_under_a_customised_errno_name_table')
                    res.case(('customised-errno-table', label, name, end))
                    part = split_result(text)[1] if text else None
                    m = SMALL_ERRNO_RE.search(part or '')
                    shown = int(m.group(1) or m.group(2)) if m else None
                    if text is None or shown != (end[0] or None):
                        res.violation('c10-error-word-not-shown' if end[0] else 'c10-errno-on-success',
                                      f'{name} with the library\'s errno-name table {label}: END {list(end)}: the line reads {text!r}',
                                      {'name': name, 'start': start, 'end': list(end)})
                        return
    finally:
        original.clear()
        original.update(saved)
        bsd.DARWIN_ERRORCODE = original


def renumbered_tables(res, ctx, rng, names):
    """Two code tables in one process that give ONE event id to two different calls: the bundled one, and a supplied one
    in which two calls have swapped ids (a release that renumbers them).  Calls whose results are formatted in a way of
    their own (hexadecimal, signed, boolean - found by rendering every decoder on the same END words) are swapped with
    ordinary calls that use the same result label; both are rendered under both tables with the SAME END words, and
    each still shows its own rendering of the return word."""
    probe = {}
    for name in names:
        for w in (5, (1 << 63) + 5):
            try:
                probe[(name, w)] = split_result(render_outer(name, (3, 0x1000, 64, 0), (0, w, 0, 0)))[1]
            except Exception:
                probe[(name, w)] = None
    by_label = {}
    for name in names:
        r = probe[(name, 5)]
        m = re.match(r', ([A-Za-z_ ]+): ', r or '')
        if m:
            by_label.setdefault(m.group(1), []).append(name)
    bundled = ev.bundled_codes()
    for label, group in sorted(by_label.items()):
        shapes = {}
        for name in group:
            shapes.setdefault((probe[(name, 5)], probe[(name, (1 << 63) + 5)]), []).append(name)
        if len(shapes) < 2:
            continue
        common = max(shapes.values(), key=len)
        for shape, special in shapes.items():
            if special is common:
                continue
            for s_name in special:
                for o_name in rng.sample(common, min(3, len(common))):
                    ids, ido = ev.eid(s_name), ev.eid(o_name)
                    table = dict(bundled)
                    table[ids], table[ido] = bundled[ido], bundled[ids]
                    for w in (5, (1 << 63) + 5, 0, 1):
                        end = (0, w, 0, 0)
                        want_s = render_outer(s_name, (3, 0x1000, 64, 0), end)       # (fills whatever is remembered per id)
                        want_o = render_outer(o_name, (3, 0x1000, 64, 0), end)
                        got = {}
                        for nm, eid_ in ((s_name, ido), (o_name, ids)):
                            parser = ev.new_parser(codes=table)
                            out = None
                            for e in H.materialize(H.on_thread(6, H.syscall(eid_, (3, 0x1000, 64, 0), end))):
                                t = parser.feed(e)
                                if t is not None:
                                    out = str(t)
                            got[nm] = out
                        res.count('renderings_under_renumbered_tables', 2)
                        res.case(('renumbered', s_name, o_name, w))
                        if got[s_name] != want_s or got[o_name] != want_o:
                            bad = s_name if got[s_name] != want_s else o_name
                            res.violation('c10-result-depends-on-another-tables-ids', f'{s_name} and {o_name} swap their ids in a '
                                          f'supplied table: {bad} (END words error 0, return {hex(w)}) reads {got[bad]!r}, under '
                                          f'the bundled table {(want_s if bad == s_name else want_o)!r}',
                                          {'name': bad, 'start': [3, 0x1000, 64, 0], 'end': list(end)})
                            return


def shared_front_end(res, ctx, rng, n_threads=4):
    """ONE front-end object (one set of display settings, colour on as by default) serves several OS threads at once, each
    listing its own dump from its own stream; the dumps declare the same thread map.  Every dump holds polling loops -
    the same call with the same result many times in a row - and calls that differ only in their result.  Each thread
    reads, line by line, what a fresh object prints for its dump single-threaded."""
    import io
    import sys
    import threading
    from pykdebugparser.pykdebugparser import PyKdebugParser
    from vlib import gen, wire
    entries = [(6, 100, b'proc0', b'')]
    dumps = []
    for k in range(n_threads):
        prog = []
        for _ in range(12):
            name = rng.choice(('BSC_read', 'BSC_write', 'BSC_pread', 'BSC_lseek', 'BSC_sys_close'))
            start = (3, 0x1000, 64, 0)
            end = (rng.choice((0, 0, 4, 6, 9, 26, 35, 106)), rng.randrange(1, 5000), 0, 0)
            prog += H.syscall(name, start, end) * rng.choice((1, 2, 6))
        events = H.materialize(H.on_thread(6, prog), t0=0x100000001)
        dumps.append(wire.v2_file(entries, 8, gen.events_to_records(events)))

    def settings(p):
        p.color = True
        for sw in ('show_timestamp', 'show_tid', 'show_process'):
            setattr(p, sw, False)
        return p
    alone = [list(settings(PyKdebugParser()).formatted_traces(io.BytesIO(d))) for d in dumps]
    shared = settings(PyKdebugParser())
    failures = []
    barrier = threading.Barrier(n_threads)

    def worker(k):
        try:
            barrier.wait(timeout=30)
            for _ in range(3):
                got = [line for line in shared.formatted_traces(io.BytesIO(dumps[k]))]
                if got != alone[k]:
                    j = next((i for i, (a, b) in enumerate(zip(got, alone[k])) if a != b), min(len(got), len(alone[k])))
                    failures.append(f'thread {k}, line {j}: {got[j] if j < len(got) else None!r}, single-threaded '
                                    f'{alone[k][j] if j < len(alone[k]) else None!r}')
                    return
        except Exception as x:                                       # noqa
            failures.append(f'thread {k} raised {x!r} at {core.short_tb(x)}')
    threads = [threading.Thread(target=worker, args=(k,), daemon=True) for k in range(n_threads)]
    old = sys.getswitchinterval()
    sys.setswitchinterval(1e-5)
    try:
        for t in threads:
            t.start()
        for t in threads:
            t.join(timeout=300)
    finally:
        sys.setswitchinterval(old)
    if any(t.is_alive() for t in threads):
        res.inconclusive.append('threads sharing a front-end object did not finish within the watchdog')
        return
    res.count('listings_on_a_front_end_shared_by_threads', n_threads * 3)
    if failures:
        res.violation('c10-differs-on-a-front-end-shared-by-threads', f'one front-end object used by {n_threads} OS threads at '
                      f'once (own dumps and streams, same thread map): {failures[0]} ({len(failures)} thread(s) affected)',
                      {'files': dumps})


def run(ctx):
    res = core.Result()
    import random
    H.set_clock(random.Random(ctx.seed * 7919 + ctx.shard))      # coarse / jittered time base: file order is the order
    rng = ctx.rng
    inv = H.inventory()
    for i, name in enumerate(inv['bsd']):
        if ctx.mine(i):
            for rep in range(ctx.pick(1, 40)):
                check_decoder(res, ctx, rng, name)
    mine = [n for i, n in enumerate(inv['bsd']) if ctx.mine(i) and n not in DECLARED_EXCLUSIONS]
    if mine:
        scale_windows(res, ctx, rng, mine)
        small_starts(res, ctx, rng, mine)
        flag_and_opcode_starts(res, ctx, rng, mine)
    stream.run_all(res, 'c10', STREAM_CASES, rng, 'result renderings', ctx)
    for _ in range(ctx.pick(2, 8)):
        shared_front_end(res, ctx, rng)
    if ctx.shard == 0:
        renumbered_tables(res, ctx, rng, [n for n in inv['bsd'] if n not in DECLARED_EXCLUSIONS])
    if ctx.shard == 1 or ctx.nshards == 1:
        customised_errno_table(res, ctx, rng, sorted(inv['bsd']))
    if ctx.shard == 0:
        res.sample({'decoder': 'BSC_read', 'success': render_outer('BSC_read', (3, 0x1000, 64, 0), (0, 64, 0, 0)),
                    'error': render_outer('BSC_read', (3, 0x1000, 64, 0), (35, 64, 0, 0)),
                    'unknown_error': render_outer('BSC_read', (3, 0x1000, 64, 0), (4000, 64, 0, 0))})
        res.sample({'decoder': 'BSC_pipe', 'success': render_outer('BSC_pipe', (0, 0, 0, 0), (0, 5, 6, 0)),
                    'error': render_outer('BSC_pipe', (0, 0, 0, 0), (24, 5, 6, 0))})
    res.assumptions += ['calls excluded by the statement are recognised observationally (text never reacts to the error '
                        'word) and must be among: ' + ', '.join(sorted(DECLARED_EXCLUSIONS)),
                        'no lookups are nested (fsgetpath appends the looked-up path after the result)']
    res.require('error_renderings_checked', 100)
    res.require('success_results_checked', 50)
    res.require('decoders_checked', 50)
    res.require('long_windows', 20)
    res.require('scale_windows', 10)
    res.require('flag_and_opcode_start_renderings', 10000)
    res.require('renderings_under_a_customised_errno_name_table', 300)
    res.require('boundary_return_words_checked', 200)
    res.require('stream_windows_one_thread', 20)
    res.require('file_windows_v3', 20)
    return res


def finalize(res):
    lst = res.notes.get('decoders_not_reacting_to_the_error_word')
    if lst:
        res.notes['decoders_not_reacting_to_the_error_word'] = sorted(set(lst))


def replay(case, ctx):
    res = core.Result()
    check_decoder(res, ctx, ctx.rng, case['name'])
    return res
