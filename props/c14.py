"""C14 - lines name the process the dump declares for the thread; columns compose.

Monitor: generated dumps (thread maps + map-updating records interleaved with ordinary traces, a thread re-mapped
after it emitted a trace, a thread never declared) are formatted by the real front-end under every column
configuration.  Oracles: composition (line(cfg) == concatenation of the separately measured columns, in a fixed
order, + body), colour (ANSI-stripped coloured text == plain text) and a table model (own replay of the thread map
and the updating records up to the trigger event) for the process column.
"""
import io
import itertools
import re
from datetime import timezone, timedelta

from vlib import core, ev, wire, gen, histories as H, domain

LEVEL = 'exploration'
RULE = ('dumps = scenario content on 2-3 declared threads + one undeclared thread, with new-thread / exec pairs, '
        'terminate-pid and sampler thread-data records that re-map stream threads; configurations = all 2^6 column '
        'switches for event lines, all 2^3 for trace and callstack lines, raw and wall-clock timestamps, colour on/off; '
        'non-trivial = (dump, configuration) whose every line was compared with the composition of its columns / the '
        'table model; distinct = distinct (dump, configuration)')
QUICK_SHARDS = 8
NO_BB_FLAVOUR = True       # (formatted_kevents prints str(bytes): BytesWarning under -bb on the unchanged tree)
THOROUGH_SHARDS = 16
ANSI = re.compile(r'\x1b\[[0-9;]*m')
# names that fill the 32 argument bytes of a name-string record completely (no terminator) or but for one byte
LONG_NAMES = (b'GHIJKLMNOPQRSTUVWXYZabcdefghijkl', b'a-process-name-31-bytes-long-ok!'[:31], b'thirty-two-bytes-ending-in-\xc3\xa9\xc3\xa9z',
              b'\xe6\x97\xa5' * 10 + b'zz')
assert [len(n) for n in LONG_NAMES] == [32, 31, 32, 32]
KEVENT_SWITCHES = ('show_timestamp', 'show_name', 'show_func_qual', 'show_tid', 'show_process', 'show_args')
TRACE_SWITCHES = ('show_timestamp', 'show_tid', 'show_process')


def front(cfg=None, color=False, wall=False):
    from pykdebugparser.pykdebugparser import PyKdebugParser
    p = PyKdebugParser()
    p.color = color
    for k in KEVENT_SWITCHES:
        setattr(p, k, False)
    for k, v in (cfg or {}).items():
        setattr(p, k, v)
    if wall:
        p.numer, p.denom = 125, 3
        p.mach_absolute_time = 0x100000000
        p.usecs_since_epoch = 1600000000 * 10 ** 6
        p.timezone = timezone(timedelta(hours=2))
    return p


# ---------------------------------------------------------------------------------------------
# dumps with map-updating records, and the table model
# ---------------------------------------------------------------------------------------------

def gen_dump(rng):
    tids = [11, 12, 13][:rng.choice((2, 3))]
    if rng.random() < 0.4:      # unusually wide values: a 64-bit thread id, a ten-digit pid, a name that fills its field
        tids = tids[:-1] + [rng.choice((0xfedcba9876543210, (1 << 64) - 1, 123456789012))]
    undeclared = rng.choice((99, 99, 0xffffffffffffff00))
    programs = []
    map_pids = [100 * (i + 1) if rng.random() < 0.75 else 4294967295 - i for i in range(len(tids))]
    if rng.random() < 0.25:
        map_pids[rng.randrange(len(map_pids))] = 0       # the kernel's pid

    def stack_sample(tid, pid, with_thread_data):
        nf = rng.randrange(1, 9)
        # (the thread-data record of a sample says which thread was SAMPLED: usually the emitting thread itself, but a
        # sampler thread may walk another thread's stack - the line is still the emitting thread's line)
        named = tid if rng.random() < 0.6 else rng.choice(tids + [undeclared])
        nested = [H.thd_data(pid if named == tid else rng.choice((100, 200, 300, 777)), named)] if with_thread_data else []
        nested += [H.stk_uhdr(rng.choice((1, 5, 0x15)), nf)] + \
            [H.stk_udata([0x100000000 + 16 * j for j in range(q, min(q + 4, nf))]) for q in range(0, nf, 4)]
        return H.sampler(0x8 | (1 if with_thread_data else 0), 3, nested)

    for k, tid in enumerate(tids + [undeclared]):
        keyspace = {'tid': tid, 'pid': 100 * (k + 1), 'sid': 1000 * (k + 1)}
        prog = []
        if k < len(tids) and rng.random() < 0.4:
            # sampled, its process renamed (same pid: an exec, or a new-thread record carrying another name), sampled again
            prog += stack_sample(tid, map_pids[k], False)
            # (a kernel with 4-byte words lays a name out with the upper half of every argument word zero)
            prog += rng.choice((H.exec_pair(map_pids[k], rng.choice((b'execd', b'newimage')), rng.choice((H.NONE, H.ALL)), word=rng.choice((8, 8, 4))),
                                H.newthread_pair(tid, map_pids[k], b'renamed', rng.choice((H.NONE, H.ALL)), word=rng.choice((8, 8, 4)))))
            prog += stack_sample(tid, map_pids[k], rng.random() < 0.3)
        for _ in range(rng.randrange(2, 7)):
            c = rng.random()
            if c < 0.2:      # a new-thread pair that (re-)maps a thread of this stream
                target = rng.choice(tids + [undeclared, 555])
                prog += H.newthread_pair(target, rng.choice((100, 200, 300, 777, 0)), rng.choice(LONG_NAMES + tuple(t[:16] or b'x' for t in domain.TEXTS[:5])),
                                         rng.choice((H.NONE, H.ALL)), word=rng.choice((8, 8, 4)))
            elif c < 0.3:
                prog += H.exec_pair(rng.choice((100, 200, 777, 0)), rng.choice((b'execd', b'newimage') + LONG_NAMES), rng.choice((H.NONE, H.ALL)),
                                    word=rng.choice((8, 8, 4)))
            elif c < 0.34:
                # the announcements of BOTH kinds pending on one thread at once (data, data, string, string): a name string
                # belongs to the last data record of ITS OWN kind of the emitting thread, whatever lies in between
                ex = H.exec_pair(rng.choice((100, 200, 777, 0)), rng.choice((b'execd', b'newimage', b'sh')), rng.choice((H.NONE, H.ALL)))
                nt = H.newthread_pair(rng.choice(tids + [undeclared, 555]), rng.choice((100, 200, 300, 777, 0)),
                                      rng.choice((b'renamed', b'child', b'five')), rng.choice((H.NONE, H.ALL)))
                a, b = (ex, nt) if rng.random() < 0.5 else (nt, ex)
                prog += rng.choice(([a[0], b[0], a[1], b[1]], [a[0], b[0], b[1], a[1]]))
            elif c < 0.4:
                prog += [H.A('TRACE_DATA_THREAD_TERMINATE_PID', H.NONE, (rng.choice((100, 200, 888, 0)), 5, 0, 0))]
            elif c < 0.5:
                prog += H.sampler(0x1, 3, [H.thd_data(rng.choice((100, 300, 999, 0)), rng.choice(tids + [undeclared]))])
            elif c < 0.62 and rng.random() < 0.5:
                # a stack sample of the emitting thread (callstack lines), with or without its thread-data record
                prog += stack_sample(tid, keyspace['pid'], rng.random() < 0.5)
            elif c < 0.62:
                # records that name stream threads / pids but do NOT declare anything (must leave the tables alone)
                prog += [rng.choice((
                    H.A('TRACE_DATA_THREAD_TERMINATE', H.NONE, (rng.choice(tids + [undeclared]), 0, 0, 0)),
                    H.A('PERF_THD_CSwitch', H.NONE, (rng.choice(tids), rng.choice((100, 200, 4242)), 0, 0)),
                    H.A('TRACE_STRING_PROC_EXIT', rng.choice((H.NONE, H.ALL)), H.name32(b'launchd')),
                    H.A('MACH_MKRUNNABLE', H.NONE, (rng.choice(tids), 31, 0, 1)),
                    H.A('MACH_DISPATCH', H.NONE, (rng.choice(tids), 0, 4, 1)),
                ))]
            else:
                prog += H.scenario(rng, keyspace, kinds=('syscall', 'path', 'fault', 'threadname', 'single', 'gstring'), private_keys=True)
        programs.append(prog)
    order = H.random_interleaving(rng, programs)
    all_tids = tids + [undeclared]
    events = H.materialize([(all_tids[t], programs[t][i]) for t, i in order], t0=0x100000001)
    entries = [(tid, map_pids[i],
                rng.choice((b'launchd', b'Safari', b'caf\xc3\xa9', b'p', b'a-name-of-19-bytes!', b'\xe6\x97\xa5' * 6)),
                rng.choice((b'', b'', b'oxy', b' Helper', b'\xff\xfe\x01', rng.randbytes(12))))      # bytes after the NUL
               for i, tid in enumerate(tids)]
    if rng.random() < 0.3:
        entries.append((tids[0], 300, b'later-entry', b''))      # duplicate tid: the later entry wins
    data = wire.v2_file(entries, 8, gen.events_to_records(events))
    return {'data': data, 'events': events, 'entries': entries}


def table_states(dump):
    """Own replay of the thread map and the map-updating records: state[k] = (threads_pids, pids_names) after event k;
    also which events are map-updating."""
    states, updating, _ = walk_tables(dump, True)
    return states, updating


def walk_tables(dump, keep_states):
    """The replay itself.  Returns (states or None, updating, texts) where texts[k] = the process text of the emitting
    thread of event k (before, after) the event is applied - enough to judge lines of dumps too large to keep a copy
    of the tables per event."""
    codes = ev.bundled_codes()
    tp, pn = wire.threadmap_model(dump['entries'])
    last_new, last_exec = {}, {}
    open_samplers = {}
    states, updating, texts = [], [], []
    for e in dump['events']:
        name = codes.get(e.eventid)
        upd = False
        before_text = proc_text(tp, pn, e.tid)
        single = e.func_qualifier in (0, 3)
        if name == 'TRACE_DATA_NEWTHREAD' and single:
            tp[e.values[0]] = e.values[1]
            last_new[e.tid] = e.values[1]
            upd = True
        elif name == 'TRACE_DATA_EXEC' and single:
            last_exec[e.tid] = e.values[0]
        elif name == 'TRACE_STRING_NEWTHREAD' and single:
            if e.tid in last_new:
                pn[last_new[e.tid]] = e.data.replace(b'\x00', b'').decode()
                upd = True
        elif name == 'TRACE_STRING_EXEC' and single:
            if e.tid in last_exec:
                pn[last_exec[e.tid]] = e.data.replace(b'\x00', b'').decode()
                upd = True
        elif name == 'TRACE_DATA_THREAD_TERMINATE_PID' and single:
            tp[e.tid] = e.values[0]
            upd = True
        elif name == 'PERF_THD_Data' and single:
            tp[e.values[1]] = e.values[0]
            upd = True
            if e.tid in open_samplers and open_samplers[e.tid]['thd'] is None:
                open_samplers[e.tid]['thd'] = (e.values[1], e.values[0])
        elif name == 'PERF_Event' and e.func_qualifier == 1:
            open_samplers[e.tid] = {'what': e.values[0], 'thd': None}
        elif name == 'PERF_Event' and e.func_qualifier == 2:
            # the sampler re-applies the first thread-data record of its window when the window closes
            s = open_samplers.pop(e.tid, None)
            if s and s['what'] & 1 and s['thd']:
                tp[s['thd'][0]] = s['thd'][1]
            upd = True
        if keep_states:
            states.append((dict(tp), dict(pn)))
        updating.append(upd)
        texts.append((before_text, proc_text(tp, pn, e.tid)))
    return (states if keep_states else None), updating, texts


def proc_text(tp, pn, tid):
    pid = tp.get(tid, -1)
    return f'{pn.get(pid, "")}({pid})' if pid != -1 else f'Error: tid {tid}'


# ---------------------------------------------------------------------------------------------
# oracles
# ---------------------------------------------------------------------------------------------

def check_composition(res, dump, kind, switches, wall, fixed=None):
    """line(cfg) == concat(col_X for X enabled, in the fixed order) + body, for every configuration.  `fixed`: the other
    settings of the object (event filters), the same for every configuration compared."""
    fixed = dict(fixed or {})

    def lines(cfg):
        p = front(dict(fixed, **cfg), wall=wall)
        if kind == 'kevents':
            return list(p.formatted_kevents(wire.stream(dump['data'])))
        if kind == 'traces':
            return list(p.formatted_traces(wire.stream(dump['data'])))
        return list(p.formatted_callstacks(wire.stream(dump['data'])))
    case = {'file': dump['data'], 'kind': kind, 'wall_clock': wall, 'fixed': {k: list(v) if isinstance(v, list) else v for k, v in fixed.items()}}
    try:
        body = lines({})
        only = {s: lines({s: True}) for s in switches}
    except Exception as x:
        res.violation(f'c14-raises-{core.exc_name(x)}', f'{kind}: {x!r} at {core.short_tb(x)}', case)
        return None
    n = len(body)
    cols = {}
    for s in switches:
        if len(only[s]) != n:
            res.violation('c14-line-count', f'{kind}: enabling {s} changes the number of lines ({len(only[s])} vs {n})', case)
            return None
        if kind == 'kevents':
            cols[s] = only[s]                     # event lines have no body besides their columns
        else:
            cols[s] = []
            for l, b in zip(only[s], body):
                if not l.endswith(b):
                    res.violation('c14-column-alters-body', f'{kind}{" under the filters " + repr(fixed) if fixed else ""}: with only {s} enabled the line {l!r} does not end with '
                                  f'the body {b!r}', case)
                    return None
                cols[s].append(l[:len(l) - len(b)])
    for combo in itertools.product((False, True), repeat=len(switches)):
        cfg = dict(zip(switches, combo))
        try:
            got = lines(cfg)
        except Exception as x:
            res.violation(f'c14-raises-{core.exc_name(x)}', f'{kind} under {cfg}: {x!r}', dict(case, config=cfg))
            return None
        res.case((dump['data'], kind, wall, combo))
        res.count(f'configurations_{kind}')
        if len(got) != n:
            res.violation('c14-line-count', f'{kind} under {cfg}: {len(got)} lines vs {n}', dict(case, config=cfg))
            return None
        for i, l in enumerate(got):
            want = ''.join(cols[s][i] for s in switches if cfg[s]) + ('' if kind == 'kevents' else body[i])
            if l != want:
                res.violation(f'c14-composition-{kind}', f'{kind} line {i} under {[s for s in switches if cfg[s]]}: {l!r} is '
                              f'not the concatenation of its separately measured columns {want!r}', dict(case, config=cfg))
                return None
        res.count('lines_composed', n)
    # one long-lived front-end object whose switches are toggled between requests
    p = front(dict(fixed), wall=wall)
    combos = list(itertools.product((False, True), repeat=len(switches)))
    for combo in [combos[-1], combos[0]] + [combos[(7 * k + 3) % len(combos)] for k in range(4)]:
        cfg = dict(zip(switches, combo))
        for k, v in cfg.items():
            setattr(p, k, v)
        try:
            if kind == 'kevents':
                got = list(p.formatted_kevents(io.BytesIO(dump['data'])))
            elif kind == 'traces':
                got = list(p.formatted_traces(io.BytesIO(dump['data'])))
            else:
                got = list(p.formatted_callstacks(io.BytesIO(dump['data'])))
        except Exception as x:
            res.violation(f'c14-raises-{core.exc_name(x)}', f'{kind} on a re-used object under {cfg}: {x!r}', dict(case, config=cfg))
            return None
        want = [''.join(cols[s][i] for s in switches if cfg[s]) + ('' if kind == 'kevents' else body[i]) for i in range(n)]
        res.count('reused_object_requests')
        if got != want:
            res.violation(f'c14-composition-{kind}-on-reused-object', f'{kind}: after toggling the switches of one front-end '
                          f'object to {[s for s in switches if cfg[s]]} its lines are not the composition of the columns',
                          dict(case, config=cfg))
            return None
    return cols, body


def check_colour(res, dump):
    case = {'file': dump['data']}
    for cfg in ({}, {'show_timestamp': True, 'show_tid': True, 'show_process': True}):
        try:
            plain = list(front(cfg, color=False).formatted_traces(io.BytesIO(dump['data'])))
            coloured = list(front(cfg, color=True).formatted_traces(io.BytesIO(dump['data'])))
        except Exception as x:
            res.violation(f'c14-raises-{core.exc_name(x)}', f'colour: {x!r}', case)
            return
        res.count('colour_comparisons', len(plain))
        if len(plain) != len(coloured):
            res.violation('c14-colour-line-count', f'{len(coloured)} coloured vs {len(plain)} plain lines', case)
            return
        for a, b in zip(plain, coloured):
            if ANSI.sub('', b) != a:
                res.violation('c14-colour-changes-text', f'plain {a!r} vs coloured (ANSI stripped) {ANSI.sub("", b)!r}', case)
                return
        if any('\x1b' in l for l in coloured):
            res.count('dumps_with_ansi_codes_observed')


def check_process_column(res, dump, cols_traces):
    """Process column of every trace line against the table model."""
    states, updating = table_states(dump)
    case = {'file': dump['data']}
    p = front({})
    try:
        traces = list(p.traces(io.BytesIO(dump['data'])))
    except Exception as x:
        res.violation(f'c14-raises-{core.exc_name(x)}', f'{x!r}', case)
        return
    proc_col = cols_traces['show_process']
    if len(traces) != len(proc_col):
        res.violation('c14-line-count', 'traces vs formatted lines', case)
        return
    index = {e.timestamp: k for k, e in enumerate(dump['events'])}
    tp0, pn0 = wire.threadmap_model(dump['entries'])
    for t, col in zip(traces, proc_col):
        tid = t.ktraces[0].tid
        k = index[t.ktraces[-1].timestamp]          # the trigger event
        after = proc_text(*states[k], tid)
        before = proc_text(*(states[k - 1] if k else (tp0, pn0)), tid)
        ok = {f'{after:<34}'}
        if updating[k]:
            ok.add(f'{before:<34}')
        res.count('process_columns_checked')
        if 'Error: tid' in after:
            res.count('undeclared_thread_lines')
        if proc_text(*states[-1], tid) != after:
            res.count('lines_of_threads_remapped_later')
        if col not in ok:
            res.violation('c14-process-column', f'trace {str(t)!r} of thread {tid} (trigger event {k}): process column '
                          f'{col!r}, the dump declares {sorted(ok)} at that point', case)
            return
    # event lines are formatted before any trace decoder runs: the thread map alone
    try:
        kl = list(front({'show_process': True}).formatted_kevents(io.BytesIO(dump['data'])))
    except Exception as x:
        res.violation(f'c14-raises-{core.exc_name(x)}', f'{x!r}', case)
        return
    for e, l in zip(dump['events'], kl):
        want = f'{proc_text(tp0, pn0, e.tid):<27}'
        res.count('event_process_columns_checked')
        if l != want:
            res.violation('c14-event-process-column', f'event line of thread {e.tid}: {l!r}, thread map says {want!r}', case)
            return


def check_callstack_columns(res, dump):
    """Header line of every callstack: the thread-id column names the sampled thread, the process column the process
    the dump declares for it when the sampler window closes."""
    codes = ev.bundled_codes()
    states, updating = table_states(dump)
    case = {'file': dump['data'], 'kind': 'callstacks'}
    try:
        cs = list(front({}).callstacks(io.BytesIO(dump['data'])))
        proc = [l.split('\n')[0] for l in front({'show_process': True}).formatted_callstacks(io.BytesIO(dump['data']))]
        tidc = [l.split('\n')[0] for l in front({'show_tid': True}).formatted_callstacks(io.BytesIO(dump['data']))]
    except Exception as x:
        res.violation(f'c14-raises-{core.exc_name(x)}', f'callstacks: {x!r} at {core.short_tb(x)}', case)
        return
    if not (len(cs) == len(proc) == len(tidc)):
        res.violation('c14-line-count', f'callstacks {len(cs)} vs formatted {len(proc)} / {len(tidc)}', case)
        return
    events = dump['events']
    index = {e.timestamp: k for k, e in enumerate(events)}
    tp0, pn0 = wire.threadmap_model(dump['entries'])
    for c, pc, tc in zip(cs, proc, tidc):
        k0 = index.get(c.timestamp)
        if k0 is None or events[k0].tid != c.tid:
            res.violation('c14-callstack-origin', f'callstack at {c.timestamp} of thread {c.tid} does not start at a record of '
                          f'that thread', case)
            return
        k = next((j for j in range(k0 + 1, len(events)) if events[j].tid == c.tid and events[j].func_qualifier == 2
                  and codes.get(events[j].eventid) == 'PERF_Event'), None)
        if k is None:
            continue
        after = proc_text(*states[k], c.tid)
        before = proc_text(*(states[k - 1] if k else (tp0, pn0)), c.tid)
        res.count('callstack_headers_checked')
        at_start = states[k0 - 1] if k0 else (tp0, pn0)
        if proc_text(*at_start, c.tid) != proc_text(tp0, pn0, c.tid):
            res.count('callstacks_of_threads_remapped_or_renamed_earlier')
            if at_start[0].get(c.tid) == tp0.get(c.tid):
                res.count('callstacks_of_threads_renamed_under_the_same_pid')
        if tc.strip() != str(c.tid):
            res.violation('c14-callstack-tid-column', f'thread column {tc!r} of a callstack of thread {c.tid}', case)
            return
        if pc not in (f'{after:<34}', f'{before:<34}'):
            res.violation('c14-callstack-process-column', f'callstack of thread {c.tid} sampled at {hex(c.timestamp)}: process '
                          f'column {pc!r}, the dump declares {after!r} when its sampler window closes', case)
            return


def build_long_dump(rng, n_workers):
    """A long capture in which thousands of short-lived threads are created, work and terminate while a few long-lived
    declared threads keep emitting."""
    main = [11, 12, 13]
    entries = [(tid, 100 * (i + 1), b'daemon%d' % i, b'') for i, tid in enumerate(main)]
    items = []
    for tid in main:      # named by terminate records early on (reaper-style records do not declare anything)
        items.append((13, H.A('TRACE_DATA_THREAD_TERMINATE', H.NONE, (tid, 0, 0, 0))))
        items += [(tid, a) for a in H.syscall('BSC_getpid', (0, 0, 0, 0), (0, 100, 0, 0))]
    for w in range(n_workers):
        wt = 0x5000 + w
        pid = rng.choice((100, 200, 300)) if w % 3 else 5000 + w
        items += [(11, a) for a in H.newthread_pair(wt, pid, b'worker%d' % (w % 50) if pid > 300 else b'daemon%d' % (pid // 100 - 1))]
        items += [(wt, a) for a in H.syscall(rng.choice(('BSC_getpid', 'BSC_read')), (3, 0x1000, 8, 0), (0, 8, 0, 0))]
        items.append((rng.choice((wt, 12)), H.A('TRACE_DATA_THREAD_TERMINATE', H.NONE, (wt, 0, 0, 0))))
        if w % 97 == 0:
            items += [(rng.choice(main), a) for a in H.syscall('BSC_getpid', (0, 0, 0, 0), (0, 100, 0, 0))]
    for tid in main + [0x5000, 0x5001, 0x5000 + n_workers // 2]:      # the earliest threads emit again at the very end
        items += [(tid, a) for a in H.syscall('BSC_getpid', (0, 0, 0, 0), (0, 100, 0, 0))]
    events = H.materialize(items, t0=0x100000001)
    return {'data': wire.v2_file(entries, 8, gen.events_to_records(events)), 'events': events, 'entries': entries}


def long_dump(res, ctx, rng, n_workers):
    """Scale ladder: every line of every thread of a long capture names the process the dump declares."""
    dump = build_long_dump(rng, n_workers)
    events = dump['events']
    case = {'file': dump['data'], 'workers': n_workers}
    _, updating, texts = walk_tables(dump, False)
    try:
        traces = list(front({}).traces(io.BytesIO(dump['data'])))
        lines = list(front({'show_process': True}).formatted_traces(io.BytesIO(dump['data'])))
    except Exception as x:
        res.violation(f'c14-raises-{core.exc_name(x)}', f'long dump ({n_workers} short-lived threads): {x!r}', case)
        return
    if len(traces) != len(lines):
        res.violation('c14-line-count', f'long dump: {len(lines)} lines for {len(traces)} traces', case)
        return
    index = {e.timestamp: k for k, e in enumerate(events)}
    for t, line in zip(traces, lines):
        k = index[t.ktraces[-1].timestamp]
        before, after = texts[k]
        res.count('long_dump_lines_checked')
        ok = {f'{after:<34}'} | ({f'{before:<34}'} if updating[k] else set())
        if not any(line.startswith(o) for o in ok):
            res.violation('c14-process-column', f'long dump ({n_workers} short-lived threads), trace {str(t)!r} of thread '
                          f'{t.ktraces[0].tid} (event {k} of {len(events)}): line {line[:50]!r}, the dump declares '
                          f'{sorted(ok)} at that point', case)
            return
    res.count('long_dumps')


def concurrent_objects(res, rng, dumps):
    """Two front-end objects, each listing its own dump, their lazy listings advanced alternately: every line is what
    the object prints when it is the only one in the process (the tables a line is rendered from are the object's own)."""
    import itertools
    cfg = {'show_timestamp': True, 'show_tid': True, 'show_process': True}
    for method in ('formatted_traces', 'formatted_kevents', 'formatted_callstacks'):
        try:
            alone = [list(getattr(front(cfg), method)(io.BytesIO(d['data']))) for d in dumps]
            objs = [front(cfg) for _ in dumps]
            gens = [getattr(o, method)(io.BytesIO(d['data'])) for o, d in zip(objs, dumps)]
            got = [[] for _ in dumps]
            for row in itertools.zip_longest(*gens):
                for i, l in enumerate(row):
                    if l is not None:
                        got[i].append(l)
        except Exception as x:
            res.violation(f'c14-raises-{core.exc_name(x)}', f'{method} on two objects at the same time: {x!r}',
                          {'files': [d['data'] for d in dumps]})
            return
        res.count('concurrent_object_listings')
        for i, d in enumerate(dumps):
            if got[i] != alone[i]:
                k = next((j for j, (a, b) in enumerate(zip(got[i], alone[i])) if a != b), min(len(got[i]), len(alone[i])))
                res.violation('c14-line-depends-on-another-object', f'{method}: two front-end objects list two dumps, their '
                              f'listings advanced alternately: line {k} of dump {i} reads '
                              f'{got[i][k] if k < len(got[i]) else None!r}, alone it reads '
                              f'{alone[i][k] if k < len(alone[i]) else None!r}', {'files': [x['data'] for x in dumps]})
                return


def abandoned_requests(res, rng, dumps):
    """A request is started on a front-end object and given up half-way (its iterator dropped, closed, or left to the
    garbage collector) WHILE a later request on the same object is being read: the later request - whose thread map the
    object's tables hold - prints every line as it does alone."""
    import gc
    cfg = {'show_timestamp': True, 'show_tid': True, 'show_process': True}
    a, b = dumps
    for method in ('formatted_traces', 'formatted_kevents', 'formatted_callstacks'):
        for how in ('del', 'close', 'gc'):
            try:
                alone = list(getattr(front(cfg), method)(io.BytesIO(b['data'])))
                p = front(cfg)
                it_a = getattr(p, method)(io.BytesIO(a['data']))
                taken = list(itertools.islice(it_a, rng.randrange(1, 4)))
                it_b = getattr(p, method)(io.BytesIO(b['data']))
                got = list(itertools.islice(it_b, 1))
                if how == 'close':
                    getattr(it_a, 'close', lambda: None)()
                elif how == 'del':
                    del it_a
                else:
                    holder = [it_a]
                    holder.append(holder)           # a reference cycle: only the collector frees it
                    del it_a, holder
                gc.collect()
                got += list(it_b)
            except Exception as x:
                res.violation(f'c14-raises-{core.exc_name(x)}', f'{method}: request abandoned ({how}) while a later one is read: '
                              f'{x!r}', {'files': [a['data'], b['data']]})
                return
            res.count('abandoned_request_histories')
            if got != alone:
                k = next((j for j, (x, y) in enumerate(zip(got, alone)) if x != y), min(len(got), len(alone)))
                res.violation('c14-line-depends-on-an-abandoned-request', f'{method}: an earlier, unfinished request on the same '
                              f'object was given up ({how}) after the first line of this one was read: line {k} reads '
                              f'{got[k] if k < len(got) else None!r}, alone {alone[k] if k < len(alone) else None!r}',
                              {'files': [a['data'], b['data']]})
                return


def threaded_objects(res, rng, dumps):
    """The same on OS threads: every thread lists its own dump with its own front-end object (plain and coloured), all at
    the same time with the interpreter switching threads every few bytecodes; lines are taken one by one and only the
    text is kept.  Every thread prints what a single-threaded run prints."""
    import sys
    import threading
    cfg = {'show_timestamp': True, 'show_tid': True, 'show_process': True}
    jobs = [(d, method, color) for d in dumps for method, color in
            (('formatted_traces', False), ('formatted_traces', True), ('formatted_kevents', False), ('formatted_callstacks', False))]
    try:
        alone = [list(getattr(front(cfg, color=c), m)(io.BytesIO(d['data']))) for d, m, c in jobs]
    except Exception as x:
        res.violation(f'c14-raises-{core.exc_name(x)}', f'{x!r}', {'files': [d['data'] for d in dumps]})
        return
    failures = []
    barrier = threading.Barrier(len(jobs))

    def worker(i):
        d, m, c = jobs[i]
        try:
            barrier.wait(timeout=30)
            for _ in range(2):
                got = []
                for line in getattr(front(cfg, color=c), m)(io.BytesIO(d['data'])):
                    got.append(line)
                if got != alone[i]:
                    k = next((j for j, (a, b) in enumerate(zip(got, alone[i])) if a != b), min(len(got), len(alone[i])))
                    failures.append(f'{m}{" (coloured)" if c else ""}: line {k} reads {got[k] if k < len(got) else None!r}, '
                                    f'single-threaded {alone[i][k] if k < len(alone[i]) else None!r}')
                    return
        except Exception as x:                                          # noqa
            failures.append(f'{m}: raised {x!r} at {core.short_tb(x)}')

    threads = [threading.Thread(target=worker, args=(i,), daemon=True) for i in range(len(jobs))]
    old = sys.getswitchinterval()
    sys.setswitchinterval(1e-6)
    try:
        for t in threads:
            t.start()
        for t in threads:
            t.join(timeout=300)
    finally:
        sys.setswitchinterval(old)
    if any(t.is_alive() for t in threads):
        res.inconclusive.append('concurrent listings did not finish within the watchdog')
        return
    res.count('listings_by_concurrent_threads', len(jobs) * 2)
    if failures:
        res.violation('c14-differs-between-concurrent-threads', f'{len(jobs)} OS threads, each listing its own dump with its '
                      f'own front-end object: {failures[0]} ({len(failures)} listing(s) affected)',
                      {'files': [d['data'] for d in dumps]})


def cli_equals_api(res, rng, dump):
    """The command line prints exactly the lines the library formats under the same switches (every listing command,
    thread-id column on and off, colour on and off for traces)."""
    from vlib import cli
    for cmd in ('kevents', 'traces', 'callstacks'):
        show_tid = rng.random() < 0.5
        color = rng.random() < 0.5 if cmd == 'traces' else None
        out, exc, args = cli.run(cmd, dump['data'], show_tid=show_tid, color=color)
        case = {'file': dump['data'], 'cmd': cmd, 'args': args}
        if exc is not None:
            res.violation(f'c14-cli-raises-{core.exc_name(exc)}', f'`{cmd} {" ".join(args)}`: {exc!r}', case)
            return
        try:
            want = cli.api(cmd, dump['data'], show_tid=show_tid, color=True if color is None else color)
        except Exception as x:
            res.violation(f'c14-raises-{core.exc_name(x)}', f'{cmd}: {x!r}', case)
            return
        res.count('cli_listings_compared')
        if out != ''.join(l + '\n' for l in want):
            got = out.split('\n')[:-1]
            flat = [x for l in want for x in l.split('\n')]
            k = next((i for i, (a, b) in enumerate(zip(got, flat)) if a != b), min(len(got), len(flat)))
            res.violation('c14-cli-differs-from-api', f'`{cmd} {" ".join(args)}` prints {len(got)} lines, the library formats '
                          f'{len(flat)}; first difference at line {k}: {got[k] if k < len(got) else None!r} vs '
                          f'{flat[k] if k < len(flat) else None!r}', case)
            return


def cli_on_a_terminal(res, rng, dump):
    """The command line as a real process with its output on a pipe and on pseudo terminals of 80 and 200 columns: the
    text it prints (escape sequences removed) is the same - a line is not cut, re-padded or re-arranged because a
    terminal is looking."""
    from vlib import cli
    cli.terminal_agrees(res, 'c14', dump['data'], 'listing', cmds=(('traces', ('--no-color',)), ('traces', ()), ('kevents', ()),
                                                                   ('callstacks', ())))


def check_logs(res, rng):
    """Log lines: colour never changes the text; a record that names its process and thread is shown under the
    process the dump declares for that thread (the record itself declares it)."""
    import plistlib
    from vlib import logs
    strings = logs.Strings(rng)
    raws = []
    for _ in range(rng.randrange(1, 8)):
        raw = logs.gen_event(rng, strings, [k for k in ('p', 'pid', 'send') if rng.random() < 0.7])
        raw['tid'] = rng.choice((0, 11, 12, 4242))
        raws.append(raw)
    data = wire.V3Spec(entries=[(11, 100, b'launchd', b''), (12, 200, b'Safari', b'')], chunks=[[]], blocks=[
        (wire.TAG_LOG_EVENTS, plistlib.dumps({'Events': raws}, fmt=plistlib.FMT_BINARY)),
        (wire.TAG_LOG_STRINGS, plistlib.dumps(strings.plist(), fmt=plistlib.FMT_BINARY))]).build()
    case = {'file': data}
    try:
        plain = list(front({}, color=False).formatted_logs(io.BytesIO(data)))
        coloured = list(front({}, color=True).formatted_logs(io.BytesIO(data)))
    except Exception as x:
        res.violation(f'c14-logs-raise-{core.exc_name(x)}', f'{x!r}', case)
        return
    if len(plain) != len(raws) or len(coloured) != len(raws):
        res.violation('c14-log-line-count', f'{len(plain)} / {len(coloured)} lines for {len(raws)} records', case)
        return
    inv = strings.inverted()
    for raw, a, b in zip(raws, plain, coloured):
        res.count('log_lines_checked')
        if ANSI.sub('', b) != a:
            res.violation('c14-colour-changes-text', f'log line: plain {a!r} vs coloured {ANSI.sub("", b)!r}', case)
            return
        if '\x1b[' in b:
            res.count('log_lines_with_escape_sequences_observed')
        if not a.endswith(inv[raw['cm']]):
            res.violation('c14-log-body', f'log line {a!r} does not end with its message', case)
            return
        if 'p' in raw and inv[raw['p']] and raw['tid']:
            want = f'{inv[raw["p"]]}({raw.get("pid", 0)})'
            if want not in a:
                res.violation('c14-log-process', f'log line {a!r}: the record declares {want} for its thread', case)
                return


def run(ctx):
    res = core.Result()
    rng = ctx.rng
    prev_dump = None
    # the colouring library emits escape sequences only when it is allowed to (a terminal, or FORCE_COLOR): without this
    # every "coloured" log line is plain and the comparison "colouring never changes the text" compares a line with itself
    import os
    os.environ['FORCE_COLOR'] = '1'
    os.environ.pop('NO_COLOR', None)
    for i in range(ctx.pick(16, 600)):
        check_logs(res, rng)
        dump = gen_dump(rng)
        wall = i % 3 == 0
        check_composition(res, dump, 'kevents', KEVENT_SWITCHES, wall)
        r = check_composition(res, dump, 'traces', TRACE_SWITCHES, wall)
        r2 = check_composition(res, dump, 'callstacks', TRACE_SWITCHES, wall)
        if r2 is not None:
            res.count('callstack_lines', len(r2[1]))
            if not wall:
                check_callstack_columns(res, dump)
        if r is not None and not wall:
            check_process_column(res, dump, r[0])
        # the same with event filters set on the object: the filters select lines, the switches select columns, and
        # neither changes what a selected line's other columns or its body say
        present = sorted({e.eventid >> 24 for e in dump['events']})
        fixed = rng.choice(({'filter_class': [rng.choice(present)]}, {'filter_class': rng.sample(present, min(2, len(present)))},
                            {'filter_subclass': [rng.choice(dump['events']).eventid >> 16]},
                            {'filter_tid': rng.choice(dump['events']).tid},
                            {'filter_class': [0x1f]}, {'filter_class': [4], 'filter_tid': rng.choice(dump['events']).tid}))
        for kind in ('traces', 'callstacks'):
            if check_composition(res, dump, kind, TRACE_SWITCHES, wall, fixed) is not None:
                res.count('compositions_under_event_filters')
        check_colour(res, dump)
        if i % 2 == 0:
            cli_equals_api(res, rng, dump)
        if i % 16 == 4:
            cli_on_a_terminal(res, rng, dump)
        if prev_dump is not None and i % 2:
            concurrent_objects(res, rng, [prev_dump, dump])
            if i % 4 == 3:
                abandoned_requests(res, rng, [prev_dump, dump])
            if i % 4 == 1:
                threaded_objects(res, rng, [prev_dump, dump])
        prev_dump = dump
        res.count('dumps')
    if ctx.shard == 0:
        for n in ctx.pick((2600,), (2600, 9000, 40000)):
            long_dump(res, ctx, rng, n)
        d = gen_dump(core.Ctx('C14', ctx.tier, ctx.seed).rng)
        p = front({'show_timestamp': True, 'show_tid': True, 'show_process': True})
        res.sample({'lines': list(p.formatted_traces(io.BytesIO(d['data'])))[:4]})
        res.sample({'event_line_columns': list(KEVENT_SWITCHES), 'trace_line_columns': list(TRACE_SWITCHES) + ['body']})
    res.assumptions += ['texts are printable, without ESC or line terminators',
                        'for a record that re-maps tables at its own trigger both the inclusive and the exclusive reading '
                        'are accepted', 'event lines are produced before any trace decoder runs: thread map only']
    res.require('configurations_kevents', 64)
    res.require('configurations_traces', 8)
    res.require('process_columns_checked', 50)
    res.require('undeclared_thread_lines', 1)
    res.require('lines_of_threads_remapped_later', 1)
    res.require('colour_comparisons', 20)
    res.require('reused_object_requests', 20)
    res.require('callstack_headers_checked', 10)
    res.require('long_dumps', 1)
    res.require('cli_runs_on_a_terminal', 8)
    res.require('log_lines_with_escape_sequences_observed', 10)
    res.require('compositions_under_event_filters', 10)
    res.require('cli_listings_compared', 12)
    res.require('concurrent_object_listings', 6)
    res.require('abandoned_request_histories', 9)
    res.require('listings_by_concurrent_threads', 16)
    res.require('callstacks_of_threads_remapped_or_renamed_earlier', 1)
    res.require('callstacks_of_threads_renamed_under_the_same_pid', 1)
    return res


def replay(case, ctx):
    res = core.Result()
    print('replay: re-run the check; the replay file holds the dump and the configuration')
    return res
