"""C18 - output is a function of the dump, not of the host operating system.

Monitor: the same rendering workload is executed in subprocesses under substituted hosts (vlib.hostswap replaces
errno.errorcode, signal.Signals, socket.AddressFamily/SocketKind/SOL_SOCKET, os.strerror, sys.platform, TZ and the
locale before the repository is imported): the real Linux host, a Darwin-shaped host and a deliberately scrambled
host.  Oracle: the outputs are byte-identical across hosts and the symbolic names equal the Darwin reference.
"""
import json
import os
import re
import subprocess
import sys

from vlib import core, darwin_ref as D

LEVEL = 'exploration'
RULE = ('hosts = {real Linux interpreter, Darwin-shaped tables, scrambled tables} x workload = every error code 0..134 and '
        'unknown/huge codes through two result serializers, every signal 1..31, every Darwin address family x socket '
        'type, socket-option levels x options, a generated dump through formatted_traces/formatted_kevents and the '
        'logs of a v3 dump; non-trivial = rendering compared across the three hosts and (for names) with the Darwin '
        'reference; distinct = distinct (section, case)')
QUICK_SHARDS = 1
NO_BB_FLAVOUR = True       # (formatted_kevents prints str(bytes): BytesWarning under -bb on the unchanged tree)
NO_OPTIMIZED_FLAVOUR = True      # the hosts are subprocesses of their own; the -O / -OO interpreters are among them
THOROUGH_SHARDS = 1
HOSTS = ('real', 'darwin', 'scrambled', 'permuted', 'bsdlike', 'windowslike', 'real-hashseed-1', 'real-hashseed-4711', 'real-ascii-console',
         'real-python-O', 'real-python-OO', 'real-python-Werror', 'real-python-Xdev', 'real-tty', 'real-logging-debug')


SCRATCH = [None]       # working directory and HOME of the host runs (so that relative and per-user paths are harmless)


def run_host(host, seed):
    env = dict(os.environ)
    if SCRATCH[0]:
        env['HOME'] = os.path.join(SCRATCH[0], 'home')
        env['XDG_CONFIG_HOME'] = os.path.join(SCRATCH[0], 'home', '.config')
    if isinstance(host, tuple):
        # ('env', NAME, VALUE): the real host with one more environment variable (see run_one)
        env[host[1]] = host[2]
        host = 'real'
    if host.startswith('real-hashseed-'):
        # the interpreter's string-hash randomisation is part of the machine too (set / dict iteration order)
        env['PYTHONHASHSEED'] = host.rsplit('-', 1)[1]
        env['COLUMNS'] = '40'
        env['NO_COLOR'] = '1'
        host = 'real'
    if host == 'real-ascii-console':
        # a console that cannot show non-ASCII text (C / POSIX locale, PYTHONIOENCODING): what the tool computes must not
        # follow what the terminal can display
        env.update({'PYTHONIOENCODING': 'ascii', 'LC_ALL': 'POSIX', 'LANG': 'POSIX', 'PYTHONUTF8': '0', 'PYTHONCOERCECLOCALE': '0'})
        host = 'real'
    flags = []
    if host.startswith('real-python-'):
        # how the interpreter was started is part of the machine: -O compiles asserts away, -OO strips docstrings too
        # (-W error: a warning - a deprecated call, an invalid escape - raises instead of printing.  Not -bb: the event
        # listing prints its payload with str(bytes) on purpose, which that debugging switch forbids.)
        flags = ['-W', 'error'] if host.endswith('Werror') else ['-X', 'dev'] if host.endswith('Xdev') else \
            [host.rsplit('-', 1)[1].join(('-', ''))]
        host = 'real'
    if host == 'real-logging-debug':
        # the embedding application has logging configured at DEBUG (how verbose the process logs is part of its state)
        env['VERIF_LOGGING'] = 'DEBUG'
        host = 'real'
    if host == 'real-tty':
        # standard input / output / error are a terminal (a pseudo terminal, TERM set): what the tool computes must not
        # follow what it is connected to.  The result comes back through a file.
        import pty
        import tempfile
        master, slave = pty.openpty()
        fd, out_path = tempfile.mkstemp(prefix='verif-c18-tty-', suffix='.json')
        os.close(fd)
        env.update({'VERIF_OUT': out_path, 'TERM': 'xterm-256color'})
        env.pop('NO_COLOR', None)
        try:
            p = subprocess.run([sys.executable, '-m', 'vlib.hostswap', 'real', str(seed)], env=env, stdin=slave, stdout=slave,
                               stderr=slave, timeout=600, cwd=os.path.join(SCRATCH[0], 'cwd') if SCRATCH[0] else None)
            os.close(slave)
            if p.returncode != 0:
                try:
                    tail = os.read(master, 4000).decode('utf-8', 'replace')
                except OSError:
                    tail = ''
                raise core.Inconclusive(f'host real-tty workload failed: {tail[-600:]}')
            with open(out_path) as f:
                return json.load(f)
        finally:
            os.close(master)
            os.unlink(out_path)
    p = subprocess.run([sys.executable] + flags + ['-m', 'vlib.hostswap', host, str(seed)], env=env, capture_output=True,
                       text=True, timeout=600, cwd=os.path.join(SCRATCH[0], 'cwd') if SCRATCH[0] else None)
    if p.returncode != 0:
        raise core.Inconclusive(f'host {host} workload failed: {p.stderr[-600:]}')
    return json.loads(p.stdout)


ANSI_RE = re.compile(r'\x1b\[[0-9;]*m')
ERR_RE = re.compile(r'errno: (?:([A-Za-z0-9_]+)\((\d+)\)|(\d+))')


def check_names(res, out):
    """Names against the Darwin reference (on the real host's output; equality across hosts is checked separately)."""
    for section in ('errno_read', 'errno_pipe', 'errno_open'):
        for code, text in out[section].items():
            c = int(code)
            res.count('error_names_checked')
            if c == 0:
                if 'errno' in text:
                    res.violation('c18-errno-name', f'{section}: code 0 rendered {text!r}', {'section': section, 'code': c})
                continue
            m = ERR_RE.search(text)
            if not m:
                res.violation('c18-errno-shape', f'{section}: code {c} rendered {text!r}', {'section': section, 'code': c})
                continue
            name = m.group(1)
            allowed = D.ERRNO_ALIASES.get(c, {D.ERRNO[c]}) if c in D.ERRNO else {None}
            if name not in allowed:
                res.violation('c18-errno-name', f'{section}: error {c} is shown as {name!r}; Darwin\'s name is '
                              f'{sorted(a for a in allowed if a) or "none (bare number expected)"}',
                              {'section': section, 'code': c})
    for s, text in out['signals'].items():
        res.count('signal_names_checked')
        m = re.match(r'sigaction\(([A-Za-z0-9_]+), ', text)
        allowed = D.SIGNAL_ALIASES.get(int(s), {D.SIGNALS[int(s)]})
        if not m or m.group(1) not in allowed:
            res.violation('c18-signal-name', f'signal {s} rendered {text!r}; Darwin: {sorted(allowed)}', {'signal': int(s)})
    for section in ('socket', 'socketpair', 'socket_delegate'):
        for key, text in out[section].items():
            a, k = map(int, key.split(','))
            res.count('socket_names_checked')
            m = re.match(r'[a-z_]+\(([A-Za-z0-9_]+), ([A-Za-z0-9_]+), ', text)
            fam_ok = m and m.group(1) in D.AF_ALIASES.get(a, {D.AF[a]})
            if not m or not fam_ok or m.group(2) != D.SOCK[k]:
                res.violation('c18-socket-name', f'{section}({a}, {k}) rendered {text!r}; Darwin: {D.AF[a]}, {D.SOCK[k]}',
                              {'section': section, 'family': a, 'type': k})
    for section in ('setsockopt', 'getsockopt'):
        for key, text in out[section].items():
            l, o = map(int, key.split(','))
            res.count('sockopt_levels_checked')
            m = re.match(r'[a-z]+\((\d+), ([A-Za-z0-9_]+), ([A-Za-z0-9_]+), ', text)
            if not m:
                res.violation('c18-sockopt-shape', f'{section}({l}, {o}) rendered {text!r}', {'level': l, 'option': o})
                continue
            want = ('SOL_SOCKET', D.SO_OPTIONS[o]) if l == D.SOL_SOCKET else (str(l), str(o))
            if (m.group(2), m.group(3)) != want:
                res.violation('c18-sockopt-level', f'{section} level {hex(l)} option {hex(o)} rendered {text!r}; expected '
                              f'{want}', {'level': l, 'option': o})


def run(ctx):
    global HOSTS
    res = core.Result()
    if ctx.tier == 'thorough':
        HOSTS = HOSTS + tuple(f'real-hashseed-{k}' for k in (2, 3, 5, 99))
    import shutil
    import tempfile
    SCRATCH[0] = tempfile.mkdtemp(prefix='verif-c18-host-')
    os.makedirs(os.path.join(SCRATCH[0], 'cwd'))
    os.makedirs(os.path.join(SCRATCH[0], 'home', '.config'))
    try:
        for k in range(ctx.pick(1, 12)):
            run_one(res, ctx, ctx.seed * 1000 + k)
            res.count('workload_seeds')
    finally:
        shutil.rmtree(SCRATCH[0], ignore_errors=True)
        SCRATCH[0] = None
    res.counters['hosts'] = len(HOSTS)
    res.assumptions += ['other platforms are modelled by substituting the interpreter\'s errno/signal/socket tables, '
                        'os.strerror, sys.platform, TZ and locale before the repository is imported',
                        'Darwin names = vlib/darwin_ref.py (aliases such as EWOULDBLOCK/EAGAIN accepted)']
    res.require('cross_host_comparisons', 500)
    res.require('error_names_checked', 100)
    res.require('signal_names_checked', 31)
    res.require('socket_names_checked', 100)
    return res


def run_one(res, ctx, seed):
    outs = {h: run_host(h, seed) for h in HOSTS}
    # environment variables that code of the repository looked at (recorded by the replaced os.environ): the run is
    # repeated with each of them set, and must print the same
    env_reads = sorted({k for o in outs.values() for k in o.pop('_env_reads', [])})
    res.counters['environment_variables_read_by_the_repository'] = max(
        res.counters.get('environment_variables_read_by_the_repository', 0), len(env_reads))
    if env_reads:
        import tempfile
        junk = tempfile.NamedTemporaryFile('w', suffix='.txt', delete=False)
        junk.write('# site file\n0x2f000004 SITE_private_point\n\n')
        junk.close()
        try:
            for name in env_reads[:6]:
                for value in (junk.name, '1', 'ascii'):
                    other = run_host(('env', name, value), seed)
                    for k in ('_env_reads', '_clock_reads', '_file_opens', '_file_probes'):
                        other.pop(k, None)
                    res.count('environment_perturbations')
                    diff = [k for k in outs['real'] if other.get(k) != outs['real'][k]]
                    if diff:
                        res.violation(f'c18-depends-on-environment-variable', f'the repository reads the environment variable '
                                      f'{name}; with {name}={value!r} the sections {diff[:4]} of the same workload differ',
                                      {'variable': name, 'value': value})
                        break
        finally:
            os.unlink(junk.name)
    # the wall clock and files of the host: read by code of the repository?  (recorded by patched clock functions and an
    # audit hook in the host run).  A clock reader is run again 400 days and 7 hours later and must print the same.
    clock_reads = sorted({k for o in outs.values() for k in o.pop('_clock_reads', [])})
    file_opens = sorted({k for o in outs.values() for k in o.pop('_file_opens', [])})
    res.counters['clock_reads_by_the_repository'] = max(res.counters.get('clock_reads_by_the_repository', 0), len(clock_reads))
    res.counters['host_files_opened_by_the_repository'] = max(res.counters.get('host_files_opened_by_the_repository', 0),
                                                              len(file_opens))
    if clock_reads:
        later = run_host(('env', 'VERIF_CLOCK_SHIFT', str(400 * 86400 + 7 * 3600)), seed)
        for k in ('_env_reads', '_clock_reads', '_file_opens', '_file_probes'):
            later.pop(k, None)
        diff = [k for k in outs['real'] if later.get(k) != outs['real'][k]]
        res.count('clock_perturbations')
        if diff:
            res.violation('c18-depends-on-the-wall-clock', f'the repository reads the current time ({clock_reads}); 400 days and '
                          f'7 hours later the sections {diff[:4]} of the same workload differ', {'reads': clock_reads})
    if file_opens:
        res.notes['host_files_opened_by_the_repository'] = file_opens[:10]
    # paths the repository asks the file system about (exists / stat / listdir / open): those that lie in the scratch
    # working directory or HOME of the run are created - as a file holding table-like text, and as a directory holding
    # such a file - and the workload must print the same
    probes = sorted({k for o in outs.values() for k in o.pop('_file_probes', [])})
    res.counters['paths_probed_by_the_repository'] = max(res.counters.get('paths_probed_by_the_repository', 0), len(probes))
    if probes:
        res.notes['paths_probed_by_the_repository'] = probes[:10]
    inside = [p for p in probes if SCRATCH[0] and p.startswith(SCRATCH[0] + os.sep)]
    for as_dir in (False, True):
        made = []
        try:
            for p in inside[:8]:
                if os.path.lexists(p):
                    continue
                os.makedirs(p if as_dir else os.path.dirname(p), exist_ok=True)
                target = os.path.join(p, 'trace.codes') if as_dir else p
                with open(target, 'w') as fd:
                    fd.write('# site file\n0x2f000004 SITE_private_point\n0x40c000c BSC_site_read\n[section]\nkey = 1\n')
                made.append(p)
            if made:
                other = run_host('real', seed)
                for k in ('_env_reads', '_clock_reads', '_file_opens', '_file_probes'):
                    other.pop(k, None)
                res.count('file_system_perturbations')
                diff = [k for k in outs['real'] if other.get(k) != outs['real'][k]]
                if diff:
                    res.violation('c18-depends-on-a-host-file', f'the repository looks for {made[:3]}; when that path exists '
                                  f'(as a {"directory" if as_dir else "file"}) the sections {diff[:4]} of the same workload '
                                  f'differ', {'paths': made})
                    break
        finally:
            import shutil
            for p in made:
                if as_dir:
                    shutil.rmtree(p, ignore_errors=True)
                elif os.path.exists(p):
                    os.unlink(p)
    base = outs['real']
    for section, val in base.items():
        items = val.items() if isinstance(val, dict) else enumerate(val) if isinstance(val, list) else [(0, val)]
        items = list(items)
        for host in HOSTS[1:]:
            other = outs[host].get(section)
            oitems = list(other.items() if isinstance(other, dict) else enumerate(other) if isinstance(other, list)
                          else [(0, other)])
            if len(oitems) != len(items):
                res.violation(f'c18-host-dependent-{section}', f'{section}: {len(items)} items on the real host, '
                              f'{len(oitems)} on the {host} host', {'section': section, 'host': host})
                continue
            for (k, a), (_, b) in zip(items, oitems):
                res.count('cross_host_comparisons')
                if host == 'real-tty' and isinstance(a, str) and isinstance(b, str):
                    # whether escape sequences are emitted may follow the terminal (termcolor does, like ls --color=auto);
                    # the TEXT may not: compared with the escape sequences removed
                    a, b = ANSI_RE.sub('', a), ANSI_RE.sub('', b)
                if a != b:
                    res.violation(f'c18-host-dependent-{section}', f'{section}[{k}]: {a!r} on the real host, {b!r} on the '
                                  f'{host} host', {'section': section, 'case': k, 'host': host})
                    break
        for k, a in items:
            res.case((section, k))
            if isinstance(a, str) and a.startswith('<raised') and not section.endswith('_unlisted'):
                res.violation(f'c18-raises-{section}', f'{section}[{k}]: {a}', {'section': section, 'case': k})
                break
    check_names(res, base)
    res.sample({'errno 35': base['errno_read']['35'], 'errno 11': base['errno_read']['11'], 'errno 4000': base['errno_read']['4000']})
    res.sample({'socket(30,1)': base['socket']['30,1'], 'signal 10': base['signals']['10'],
                'setsockopt SOL_SOCKET': base['setsockopt'][f'{D.SOL_SOCKET},4']})
    res.sample({'formatted_traces_first': base['formatted_traces'][:2], 'formatted_logs_first': base['formatted_logs'][:1]})


def replay(case, ctx):
    return run(ctx)
