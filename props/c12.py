"""C12 - event filters select exactly the matching subsequence.

Monitor: generated v2/v3 dumps are listed by the real front-end without filters and under many filter
configurations (API and click CLI); the oracle is a list comprehension over the *unfiltered* run with own shift
literals, compared as sequences (order and multiplicity); kevents must never yield a log record nor os_log_events an
event; the log listing must honour thread and process filters in the same exact-subsequence sense.
"""
import io
import os
import plistlib
import tempfile

from vlib import core, wire, gen, logs, domain

LEVEL = 'exploration'
RULE = ('dumps = v2/v3 files whose records draw event ids from a small pool of classes/subclasses and thread ids from a small '
        'pool (incl. 0); configurations = tid in {None, 0, present, absent} x class lists (empty, single, several, '
        'overlapping with subclasses, absent) x subclass lists, as lists and tuples; logs: thread and process (name / pid '
        'string) filters; non-trivial = configuration whose filtered listing was compared with the model; distinct = '
        'distinct (dump, configuration)')
QUICK_SHARDS = 4
NO_BB_FLAVOUR = True       # (formatted_kevents prints str(bytes): BytesWarning under -bb on the unchanged tree)
THOROUGH_SHARDS = 16

CLASSES = [1, 3, 4, 7, 0x25, 0x31, 0xff, 0]
SUBS = [0x40c, 0x40e, 0x401, 0x4ff, 0x140, 0x301, 0x701, 0x2502, 0x1f07, 0x0, 0xffff]


def gen_file(rng, n_records=None, n_logs=None, kind=None):
    tids = [0, 1, 2, 77, rng.getrandbits(40)]
    recs = []
    for i in range(rng.randrange(0, 60) if n_records is None else n_records):
        c = rng.random()
        if c < 0.4:
            eid = (rng.choice(SUBS) << 16) | (rng.getrandbits(14) << 2)
        elif c < 0.6:
            eid = (rng.choice(CLASSES) << 24) | (rng.getrandbits(22) << 2)
        elif c < 0.85:
            # boundary values of every field below the class byte
            eid = (rng.choice(CLASSES) << 24) | (rng.choice((0x00, 0x01, 0x7f, 0x80, 0xfe, 0xff)) << 16) \
                | rng.choice((0x0000, 0x0004, 0xfffc, 0x8000))
        else:
            eid = rng.getrandbits(30) << 2
        recs.append(wire.record(1 + i * 3, [rng.getrandbits(64) for _ in range(4)], rng.choice(tids),
                                eid | rng.randrange(4), rng.randrange(4)))
    if recs:
        recs[0] = gen.nonzero_lead(recs[0])
    entries = [(t, 100 + k, b'proc%d' % k, b'') for k, t in enumerate(tids[:3])]
    if (rng.random() < 0.5) if kind is None else kind == 'v2':
        return {'kind': 'v2', 'data': wire.v2_file(entries, rng.choice((0, 8, 72)), recs), 'records': recs, 'logs': [],
                'strings': {}}
    strings = logs.Strings(rng)
    raws = []
    for _ in range(rng.randrange(0, 8) if n_logs is None else n_logs):
        raw = logs.gen_event(rng, strings, [k for k in ('p', 'pid', 'send', 'sub') if rng.random() < 0.7])
        raw['tid'] = rng.choice(tids[:4])
        if 'p' in raw:
            # (long names that begin alike: a name is compared as a whole, not up to where a kernel field or a column ends)
            raw['p'] = strings.idx(rng.choice(('launchd', 'Safari', '123', 'tccd', 'com.apple.WebKit', 'com.apple.WebKit.WebContent',
                                               'com.apple.WebKit.Networking', 'a-process-name-longer-than-the-map-field', 'Safari ')))
        if 'pid' in raw:
            raw['pid'] = rng.choice((1, 123, 456, 0))
        raws.append(raw)
    blocks = []
    if raws or rng.random() < 0.5:
        blocks = [(wire.TAG_LOG_EVENTS, plistlib.dumps({'Events': raws}, fmt=plistlib.FMT_BINARY)),
                  (wire.TAG_LOG_STRINGS, plistlib.dumps(strings.plist(), fmt=plistlib.FMT_BINARY))]
    spec = wire.V3Spec(entries=entries, chunks=gen.split_chunks(rng, recs), blocks=blocks)
    return {'kind': 'v3', 'data': spec.build(), 'records': recs, 'logs': raws, 'strings': strings.inverted()}


def gen_config(rng, f):
    present_tids = sorted({wire.ref_decode(r)['tid'] for r in f['records']}) or [5]
    tid = rng.choice((None, None, 0, rng.choice(present_tids), 999999))
    classes = rng.choice(([], [], [4], [3, 4], [7, 0x25, 1], [0xff], [0], [200], [4, 4]))
    subs = rng.choice(([], [], [0x40c], [0x40c, 0x140], [0x301, 0x701, 0x2502], [0x9999], [0], [0x40e, 0x40e], [0xffff],
                      [0x40c, 0x401], [0x401, 0x140, 0x40c, 0x4ff], [0x4ff, 0x400, 0x40c]))      # several subclasses of one class
    as_tuple = rng.random() < 0.3
    return {'tid': tid, 'classes': tuple(classes) if as_tuple else list(classes),
            'subs': tuple(subs) if as_tuple else list(subs)}


def model_events(records, cfg):
    out = []
    for r in records:
        d = wire.ref_decode(r)
        if cfg['tid'] is not None and d['tid'] != cfg['tid']:
            continue
        if cfg['classes'] or cfg['subs']:
            cls = (d['eventid'] >> 24) & 0xff
            sub = (d['eventid'] >> 16) & 0xffff
            if cls not in cfg['classes'] and sub not in cfg['subs']:
                continue
        out.append(wire.ref_tuple(r))
    return out


def run_kevents(f, cfg):
    from pykdebugparser.pykdebugparser import PyKdebugParser
    p = PyKdebugParser()
    p.filter_tid = cfg['tid']
    p.filter_class = cfg['classes']
    p.filter_subclass = cfg['subs']
    return list(p.kevents(io.BytesIO(f['data'])))


def check_events(res, f, cfg):
    from pykdebugparser.os_log_event import OsLogEvent
    case = {'file': f['data'], 'config': {k: (list(v) if isinstance(v, tuple) else v) for k, v in cfg.items()}}
    try:
        got = run_kevents(f, cfg)
    except Exception as x:
        res.violation(f'c12-raises-{core.exc_name(x)}', f'kevents under {cfg}: {x!r}', case)
        return
    res.case((f['data'], repr(cfg)))
    res.count('event_configurations')
    if any(isinstance(e, OsLogEvent) for e in got):
        res.violation('c12-log-in-event-listing', f'a log record appears in the event listing under {cfg}', case)
        return
    want = model_events(f['records'], cfg)
    try:
        got_t = [wire.event_tuple(e) for e in got]
    except Exception as x:
        res.violation('c12-shape', repr(x), case)
        return
    if got_t != want:
        res.violation('c12-event-filter', f'under tid={cfg["tid"]} classes={list(cfg["classes"])} subclasses='
                      f'{[hex(s) for s in cfg["subs"]]}: {len(got_t)} events listed, the unfiltered listing restricted to '
                      f'the filter has {len(want)}', case)
        return
    res.count('events_selected', len(want))
    if want and len(want) < len(f['records']):
        res.count('configurations_selecting_a_proper_subsequence')
    if cfg['tid'] == 0:
        res.count('configurations_with_tid_zero')


def check_history(res, rng, files):
    """One front-end object, its filters changed between requests (and the files alternated): every request must
    honour the filters as they are set at that moment."""
    from pykdebugparser.pykdebugparser import PyKdebugParser
    import copy
    p = PyKdebugParser()
    trail = []
    cur = {'tid': None, 'classes': [], 'subs': []}
    for step in range(rng.randrange(2, 7)):
        f = rng.choice(files)
        new = gen_config(rng, f)
        if step and rng.random() < 0.3:
            # the object serving the next requests is a COPY of the configured one (copy.copy / copy.deepcopy: a template
            # with the display options, one derived object per listing); the settings changed on it are its own, so the
            # lists are re-assigned, never edited in place, right after a shallow copy
            import pickle
            p = copy.copy(p) if rng.random() < 0.5 else copy.deepcopy(p) if rng.random() < 0.5 else pickle.loads(pickle.dumps(p))
            p.filter_class, p.filter_subclass = copy.copy(p.filter_class), copy.copy(p.filter_subclass)
            res.count('history_objects_derived_by_copy')
        # a caller changes any non-empty subset of the three settings, in any order; what it leaves alone stays as set
        attrs = rng.sample(('tid', 'classes', 'subs'), rng.choice((1, 1, 2, 3))) if step else ['tid', 'classes', 'subs']
        if step and rng.random() < 0.4:
            # overlapping class / subclass lists, then one of them changed alone
            sub = rng.choice([wire.ref_decode(r)['eventid'] >> 16 for r in f['records'][:40]] or [0x040c])
            new['classes'], new['subs'] = rng.choice(([sub >> 8], [], [sub >> 8, 0x21])), [sub] + list(new['subs'])[:1]
        for a in attrs:
            v = new[a]
            if a == 'tid':
                p.filter_tid = v
            elif a == 'classes':
                if rng.random() < 0.5 and isinstance(p.filter_class, list) and isinstance(v, list):
                    p.filter_class[:] = v        # edited in place, as a long-lived caller may do
                else:
                    p.filter_class = v
            else:
                if rng.random() < 0.3 and isinstance(p.filter_subclass, list) and isinstance(v, list):
                    p.filter_subclass[:] = v
                else:
                    p.filter_subclass = v
            cur[a] = v
            res.count(f'history_changed_{a}_alone' if len(attrs) == 1 else 'history_changed_several')
        cfg = dict(cur)
        trail.append({k: (list(v) if isinstance(v, tuple) else v) for k, v in cfg.items()})
        case = {'file': f['data'], 'configs': trail}
        if rng.random() < 0.35:
            # error recovery: a request on this object that is REFUSED (an unreadable stream: empty, another format, an
            # older container version, closed) or given up after its first item - of any kind, trace listings included -
            # leaves nothing behind for the listing that follows
            bad = rng.choice((b'', b'\x00\x00', b'XXXXXXXXXXXXXXXX', bytes.fromhex('00aa5555') + bytes(64), 'closed', 'abandon'))
            method = rng.choice((p.traces, p.formatted_traces, p.callstacks, p.kevents, p.formatted_kevents, p.os_log_events))
            try:
                if bad == 'closed':
                    s_ = io.BytesIO(f['data'])
                    s_.close()
                    list(method(s_))
                elif bad == 'abandon':
                    it = iter(method(io.BytesIO(f['data'])))
                    next(it, None)
                    del it
                else:
                    list(method(io.BytesIO(bad)))
            except Exception:
                pass
            res.count('refused_or_abandoned_requests_before_a_listing')
        try:
            lazy = p.kevents(io.BytesIO(f['data']))
            got = [wire.event_tuple(e) for e in lazy]
        except Exception as x:
            res.violation(f'c12-raises-{core.exc_name(x)}', f'request {step + 1} on one object under {cfg}: {x!r}', case)
            return
        res.case((f['data'], 'history', repr(trail)))
        res.count('history_requests')
        if got != model_events(f['records'], cfg):
            res.violation('c12-filter-after-reconfiguration', f'request {step + 1} on one front-end object (filters changed '
                          f'between requests, now tid={cfg["tid"]} classes={list(cfg["classes"])} subclasses='
                          f'{[hex(x) for x in cfg["subs"]]}): {len(got)} events, model selects '
                          f'{len(model_events(f["records"], cfg))}', case)
            return


def check_logs(res, f, rng):
    from pykdebugparser.pykdebugparser import PyKdebugParser
    from pykdebugparser.os_log_event import OsLogEvent
    inv = f['strings']
    for _ in range(4):
        tid = rng.choice((None, 0, 1, 2, 77, 4242))
        proc = rng.choice((None, 'launchd', 'Safari', '123', '456', '1', '0', 'nosuch', ''))
        if f['logs'] and rng.random() < 0.4:
            # the filter is exact: near misses of a record's own process (its pid spelled another way - leading zeros, a
            # sign, blanks, another base or script -, its name in another case, with a blank, cut short) select nothing
            # unless another record really carries that name
            raw = rng.choice(f['logs'])
            proc = rng.choice(domain.near_miss_spellings(raw.get('pid', 0), inv[raw['p']] if 'p' in raw else ''))
            res.count('log_filters_with_near_miss_spellings')
        p = PyKdebugParser()
        p.filter_tid = tid
        p.filter_process = proc
        case = {'file': f['data'], 'config': {'tid': tid, 'process': proc}}
        try:
            got = list(p.os_log_events(io.BytesIO(f['data'])))
        except Exception as x:
            res.violation(f'c12-logs-raise-{core.exc_name(x)}', f'{x!r}', case)
            return
        res.case((f['data'], 'logs', tid, proc))
        res.count('log_configurations')
        if any(not isinstance(e, OsLogEvent) for e in got):
            res.violation('c12-event-in-log-listing', 'an event appears in the log listing', case)
            return
        want = []
        for raw in f['logs']:
            name = inv[raw['p']] if 'p' in raw else ''
            pid = raw.get('pid', 0)
            if tid is not None and raw['tid'] != tid:
                continue
            if proc is not None and proc != name and proc != str(pid):
                continue
            want.append((inv[raw['cm']], raw['tid'], name, pid, raw['mct']))
        got_t = [(g.composed_message, g.thread_identifier, g.process, g.process_identifier, g.mach_continuous_timestamp)
                 for g in got]
        if got_t != want:
            res.violation('c12-log-filter', f'under tid={tid} process={proc!r}: {len(got_t)} log records listed, model '
                          f'selects {len(want)} of {len(f["logs"])}', case)
            return
        res.count('logs_selected', len(want))


def check_log_near_misses(res, f, rng):
    """EVERY near miss of EVERY process name / pid of the dump's log records as the process filter (no thread filter): the
    name cut at every length a kernel structure or a column would cut it, other cases, blanks, the pid in other notations -
    each selects exactly the records that carry that very text as their name or canonical pid."""
    from pykdebugparser.pykdebugparser import PyKdebugParser
    inv = f['strings']
    recs = [(inv[raw['p']] if 'p' in raw else '', raw.get('pid', 0), raw) for raw in f['logs']]
    values = set()
    for name, pid, _ in recs:
        values.update(domain.near_miss_spellings(pid, name))
    for proc in sorted(values):
        p = PyKdebugParser()
        p.filter_process = proc
        try:
            got = [(g.composed_message, g.process, g.process_identifier) for g in p.os_log_events(io.BytesIO(f['data']))]
        except Exception as x:
            res.violation(f'c12-logs-raise-{core.exc_name(x)}', f'process={proc!r}: {x!r}', {'file': f['data'], 'config': {'process': proc}})
            return
        want = [(inv[raw['cm']], name, pid) for name, pid, raw in recs if proc == name or proc == str(pid)]
        res.count('log_listings_under_near_miss_filters')
        if got != want:
            res.violation('c12-log-filter', f'under process={proc!r} (a near miss of a process of the dump): {len(got)} log records '
                          f'listed {sorted({g[1] for g in got})[:4]}, exactly {len(want)} carry that name or pid',
                          {'file': f['data'], 'config': {'tid': None, 'process': proc}})
            return


def check_cli(res, f, cfg, tmpdir):
    from click.testing import CliRunner
    from pykdebugparser.__main__ import cli
    from pykdebugparser.pykdebugparser import PyKdebugParser
    path = os.path.join(tmpdir, 'dump.bin')
    with open(path, 'wb') as fd:
        fd.write(f['data'])
    args = ['kevents', path]
    if cfg['tid'] is not None:
        args += ['--tid', str(cfg['tid'])]
    for c in cfg['classes']:
        args += ['-cf', hex(c)]
    for s in cfg['subs']:
        args += ['-sf', str(s)]
    r = CliRunner().invoke(cli, args)
    os.unlink(path)
    case = {'file': f['data'], 'args': args[2:]}
    if r.exception is not None and not isinstance(r.exception, SystemExit):
        res.violation(f'c12-cli-raises-{core.exc_name(r.exception)}', f'{args[2:]}: {r.exception!r}', case)
        return
    full = list(PyKdebugParser().formatted_kevents(io.BytesIO(f['data'])))
    sel = set()
    want_t = model_events(f['records'], cfg)
    # lines of the unfiltered listing restricted to the model's selection (records are unique by timestamp)
    want_ts = {t[0] for t in want_t}
    want_lines = [l for l, r_ in zip(full, f['records']) if wire.ref_decode(r_)['timestamp'] in want_ts]
    res.count('cli_configurations')
    if r.stdout != ''.join(l + '\n' for l in want_lines):
        res.violation('c12-cli-filter', f'CLI kevents {args[2:]} printed {len(r.stdout.splitlines())} lines, expected the '
                      f'{len(want_lines)} matching lines of the unfiltered listing', case)


def check_cli_logs(res, f, rng, tmpdir):
    """The command-line log listing: one line per log record that satisfies the filters, nothing for events."""
    from click.testing import CliRunner
    from pykdebugparser.__main__ import cli
    inv = f['strings']
    tid = rng.choice((None, None, 0, 1, 77))
    proc = rng.choice((None, None, 'launchd', '123', '0', 'nosuch'))
    path = os.path.join(tmpdir, 'dump.bin')
    with open(path, 'wb') as fd:
        fd.write(f['data'])
    args = ['logs', path] + (['--tid', str(tid)] if tid is not None else []) + (['--process', proc] if proc is not None else [])
    r = CliRunner().invoke(cli, args)
    os.unlink(path)
    case = {'file': f['data'], 'args': args[2:]}
    if r.exception is not None and not isinstance(r.exception, SystemExit):
        res.violation(f'c12-cli-logs-raise-{core.exc_name(r.exception)}', f'logs {args[2:]} on a {f["kind"]} dump: '
                      f'{r.exception!r}', case)
        return
    want = []
    for raw in f['logs']:
        name = inv[raw['p']] if 'p' in raw else ''
        if tid is not None and raw['tid'] != tid:
            continue
        if proc is not None and proc != name and proc != str(raw.get('pid', 0)):
            continue
        want.append(inv[raw['cm']])
    lines = r.stdout.splitlines()
    res.count('cli_log_listings')
    if len(lines) != len(want) or any(not l.endswith(w) for l, w in zip(lines, want)):
        res.violation('c12-cli-log-filter', f'CLI logs {args[2:]} on a {f["kind"]} dump printed {len(lines)} lines, the dump '
                      f'holds {len(want)} matching log records (of {len(f["logs"])}) and {len(f["records"])} events', case)


def run(ctx):
    res = core.Result()
    rng = ctx.rng
    tmpdir = tempfile.mkdtemp(prefix='verif-c12-')
    recent = []
    try:
        for i in range(ctx.pick(80, 8000)):
            f = gen_file(rng)
            base = {'tid': None, 'classes': [], 'subs': []}
            check_events(res, f, base)
            for _ in range(8):
                cfg = gen_config(rng, f)
                check_events(res, f, cfg)
                if i % 4 == 0 and rng.random() < 0.4:
                    check_cli(res, f, cfg, tmpdir)
            if i % 4 == 1 and f['records']:
                # LONG filter lists (a front end that ticks nearly every box): every class but one that the dump uses, plus
                # entries that are no class numbers at all (256, a subclass-sized value, -1), so that the list has 255,
                # 256, 257 ... distinct entries; subclass lists of tens of thousands of entries
                used = sorted({(wire.ref_decode(r)['eventid'] >> 24) & 0xff for r in f['records']})
                missing = rng.choice(used)
                for extra in ([], [0x100], [0x100, 0x40c, -1], list(range(0x100, 0x100 + 44)), [0x1ff] * 300):
                    classes = [c for c in range(256) if c != missing] + extra
                    rng.shuffle(classes)
                    check_events(res, f, {'tid': None, 'classes': classes, 'subs': rng.choice(([], [0x40c]))})
                    res.count('long_filter_lists')
                subs = [x for x in range(0, 0x10000) if x >> 8 != missing][::rng.choice((1, 3))]
                check_events(res, f, {'tid': None, 'classes': [], 'subs': subs})
            check_logs(res, f, rng)        # a version-2 dump holds no log records: its log listing is empty
            if i % 4 == 1 and f.get('logs'):
                check_log_near_misses(res, f, rng)
            if i % 8 == 0:
                check_cli_logs(res, f, rng, tmpdir)
            recent.append(f)
            if len(recent) >= 2:
                check_history(res, rng, recent[-3:])
        # scale ladder: listings of thousands of events / log records (batching, caps and caches show only then)
        if ctx.shard == 0:
            for kind, nr, nl in ctx.pick((('v2', 5000, 0), ('v3', 5000, 1500)), (('v2', 70000, 0), ('v3', 70000, 5000))):
                f = gen_file(rng, nr, nl, kind)
                check_events(res, f, {'tid': None, 'classes': [], 'subs': []})
                for _ in range(4):
                    check_events(res, f, gen_config(rng, f))
                if kind == 'v3':
                    check_logs(res, f, rng)
                check_cli(res, f, gen_config(rng, f), tmpdir)
                res.count('large_listings')
    finally:
        try:
            os.rmdir(tmpdir)
        except OSError:
            pass
    if ctx.shard == 0:
        res.sample({'configuration': {'tid': 0, 'classes': [3, 4], 'subclasses': ['0x40c']},
                    'model': 'e.tid == 0 and ((e.eventid >> 24) & 0xff in [3, 4] or (e.eventid >> 16) & 0xffff in [0x40c])'})
    res.assumptions += ['records are unique by timestamp (lets the CLI check map lines to records)']
    res.require('event_configurations', 100)
    res.require('configurations_selecting_a_proper_subsequence', 20)
    res.require('configurations_with_tid_zero', 1)
    res.require('log_configurations', 10)
    res.require('cli_configurations', 3)
    res.require('refused_or_abandoned_requests_before_a_listing', 20)
    res.require('history_requests', 20)
    res.require('long_filter_lists', 20)
    res.require('large_listings', 2)
    res.require('cli_log_listings', 3)
    return res


def replay(case, ctx):
    res = core.Result()
    print('replay: re-run the check; the replay file holds the dump and the configuration')
    return res
