"""C01 - every 64-byte kd_buf record decodes exactly and totally.

Monitor: post-condition contract on the real from_kd_buf (icontract) + lock-step reference decode
(vlib.wire.ref_decode: int.from_bytes on fixed slices, own mask arithmetic) + bit-flip locality oracle.
"""
import io

from vlib import core, wire, monitors

LEVEL = 'exploration'
RULE = ('records = bit walk (every one of the 512 bit positions flipped in B base records) + full product of 6 '
        'extreme values over the 6 fields + seeded random records + records met while parsing generated v2 files '
        'under the contract; a case is non-trivial when the decode returned and was compared field by field with '
        'the reference; distinct = distinct 64-byte inputs')
QUICK_SHARDS = 1
THOROUGH_SHARDS = 16

FIELDS = [('timestamp', 0, 8), ('data', 8, 40), ('tid', 40, 48), ('debugid', 48, 52), ('cpuid', 52, 56),
          ('unused', 56, 64)]
TEST_VECTOR = (b'\x8b\xf3\x8f1\x13\xeb\x03\x00ework_BusinessChat-7.0.1-py2.py3\xdeJ\x88\x00\x00\x00\x00\x00'
               b'\x90\x00\x01\x03\x01\x00\x00\x00\x00\x00\x00\x00\x00\x00\x00\x00')


def field_of_bit(bit):
    byte = bit // 8
    for name, lo, hi in FIELDS:
        if lo <= byte < hi:
            return name
    raise AssertionError


def decode(res, rec, where):
    """Run the real decoder on one record and compare with the reference; returns the event or None."""
    from pykdebugparser import kevent
    try:
        ev = kevent.from_kd_buf(rec)
    except Exception as e:
        res.violation(f'c01-raises-{core.exc_name(e)}', f'from_kd_buf raised {e!r} on {rec.hex()} ({where})',
                      {'record': rec})
        return None
    bad = monitors.check_event_against_record(rec, ev)
    if bad:
        res.violation(bad[0], f'{bad[1]} ({where}; record {rec.hex()})', {'record': rec})
    return ev


def carriers(rec, rng):
    """The same 64 bytes held by every kind of buffer object a caller may hand in (the decoder's contract is 'buffer of
    kd_buf'): items one, two, four or eight bytes wide, read-only and writable, views and copies."""
    import array
    import ctypes
    import mmap
    yield 'bytearray', bytearray(rec)
    yield 'memoryview', memoryview(rec)
    yield 'memoryview of a bytearray', memoryview(bytearray(rec))
    yield 'slice of a larger memoryview', memoryview(rng.randbytes(7) + rec + rng.randbytes(9))[7:71]
    for code in 'bBhHiIlLqQfd':
        a = array.array(code)
        a.frombytes(rec)
        yield f"array('{code}')", a
    for fmt in 'BHIQ':
        yield f"memoryview.cast('{fmt}')", memoryview(rec).cast(fmt)
    yield 'memoryview.cast 8x8', memoryview(rec).cast('B', (8, 8))
    m = mmap.mmap(-1, 64)
    m.write(rec)
    yield 'mmap', m
    yield 'ctypes array', (ctypes.c_uint64 * 8).from_buffer_copy(rec)

    class KdBuf(ctypes.LittleEndianStructure):
        _fields_ = [('timestamp', ctypes.c_uint64), ('args', ctypes.c_uint64 * 4), ('tid', ctypes.c_uint64),
                    ('debugid', ctypes.c_uint32), ('cpuid', ctypes.c_uint32), ('unused', ctypes.c_uint64)]
    yield 'ctypes structure', KdBuf.from_buffer_copy(rec)


def decode_carried(res, rec, rng):
    """One record handed to the real decoder in every kind of buffer: the event is the same as from bytes."""
    from pykdebugparser import kevent
    for name, obj in carriers(rec, rng):
        res.count('carriers_decoded')
        res.count('carrier ' + name.split('(')[0].strip())
        try:
            ev = kevent.from_kd_buf(obj)
        except Exception as e:
            res.violation(f'c01-carrier-raises-{core.exc_name(e)}', f'from_kd_buf raised {e!r} on a record handed in as '
                          f'{name} ({rec.hex()})', {'record': rec})
            continue
        if name == 'bytearray':
            # ... and handed over under the parameter's documented name (functools.partial(from_kd_buf, kd_buf=...),
            # executor.submit(from_kd_buf, kd_buf=...))
            try:
                if kevent.from_kd_buf(kd_buf=rec) != ev:
                    res.violation('c01-field-keyword-call', f'from_kd_buf(kd_buf=record) differs from from_kd_buf(record) '
                                  f'({rec.hex()})', {'record': rec})
            except Exception as e:
                res.violation(f'c01-carrier-raises-{core.exc_name(e)}', f'from_kd_buf(kd_buf=record) - the documented parameter '
                              f'name - raised {e!r} ({rec.hex()})', {'record': rec})
        bad = monitors.check_event_against_record(rec, ev)
        if bad:
            res.violation(bad[0] + '-carrier', f'{bad[1]} (record handed in as {name}; {rec.hex()})', {'record': rec})
        elif type(ev.data) is not bytes or len(ev.data) != 32:
            res.violation('c01-carrier-data-type', f'record handed in as {name}: the argument bytes come back as '
                          f'{type(ev.data).__name__} of length {len(ev.data)}', {'record': rec})


def locality(res, base, base_ev, bit):
    rec = bytearray(base)
    rec[bit // 8] ^= 1 << (bit % 8)
    rec = bytes(rec)
    ev = decode(res, rec, f'bit {bit} flipped')
    res.case(rec)
    res.count('bit_flips')
    if ev is None or base_ev is None:
        return
    field = field_of_bit(bit)
    a, b = wire.event_tuple(base_ev), wire.event_tuple(ev)
    changed = {f for f, x, y in zip(wire.REF_FIELDS, a, b) if x != y}
    allowed = {'timestamp': {'timestamp'}, 'data': {'data', 'values'}, 'tid': {'tid'},
               'debugid': {'debugid', 'eventid', 'func_qualifier'}, 'cpuid': set(), 'unused': set()}[field]
    if not changed <= allowed:
        res.violation('c01-locality', f'flipping bit {bit} (field {field}) changed {sorted(changed - allowed)}',
                      {'record': base, 'bit': bit})
    if field in ('timestamp', 'tid', 'debugid') and (getattr(ev, field) ^ getattr(base_ev, field)) != \
            1 << (bit - 8 * {'timestamp': 0, 'tid': 40, 'debugid': 48}[field]):
        res.violation('c01-locality-bit', f'flipping bit {bit} of {field} did not flip exactly that bit of the output',
                      {'record': base, 'bit': bit})
    if field in ('cpuid', 'unused') and changed:
        res.violation('c01-locality', f'output depends on {field}', {'record': base, 'bit': bit})
    res.count(f'flips_in_{field}')


def contract_workload(res, ctx):
    """Contract attached to the real function while the container parser reads generated v2 files."""
    from pykdebugparser.kd_buf_parser import KdBufParser
    from vlib import gen as _gen
    log = monitors.ContractLog()
    undo = monitors.attach_from_kd_buf_contract(log)
    try:
        rng = ctx.rng
        for _ in range(ctx.pick(30, 300)):
            recs = []
            for i in range(rng.randrange(1, 40)):
                r = bytearray(rng.randbytes(64))
                if i == 0:
                    r[0] |= 1  # first record of a v2 file: non-zero first byte (see DESIGN.md, finding F02)
                recs.append(bytes(r))
            # the header's own fields (is_64bit, tick, filler) must not leak into the decoding of a record
            data = wire.v2_file([(rng.getrandbits(64), rng.getrandbits(32), b'p%d' % rng.randrange(100))
                                 for _ in range(rng.randrange(0, 4))], rng.choice((0, 8, 64, 100)), recs,
                                hdr_fill=rng.choice((b'\x00', b'\xff', rng.randbytes(9))),
                                is_64bit=rng.choice((0, 1, 2, 0xffffffff)), tick=rng.getrandbits(48))
            try:
                got = [wire.event_tuple(e) for e in KdBufParser({}, {}).parse(io.BytesIO(data))]
                n = len(got)
                if got != [wire.ref_tuple(r) for r in recs]:
                    k = next((i for i, (a, b) in enumerate(zip(got, [wire.ref_tuple(r) for r in recs])) if a != b), 0)
                    res.violation('c01-via-container', f'record {k} read through a v2 file decodes differently from the '
                                  f'reference ({recs[k].hex() if k < len(recs) else "-"})', {'file': data})
                # the same records through a v3 file
                f3 = wire.V3Spec(chunks=[recs[:len(recs) // 2], recs[len(recs) // 2:]]).build()
                got3 = [wire.event_tuple(e) for e in KdBufParser({}, {}).parse(io.BytesIO(f3)) if hasattr(e, 'debugid')]
                if got3 != [wire.ref_tuple(r) for r in recs]:
                    res.violation('c01-via-container-v3', 'records read through a v3 file decode differently from the '
                                  'reference', {'file': f3})
                n += len(got3)
            except Exception as e:
                res.violation(f'c01-container-raises-{core.exc_name(e)}', f'parse of a generated v2 file raised {e!r}',
                              {'file': data})
                continue
            res.count('records_via_container', n)
        # a record decodes the same wherever it lies in a capture: thousands of records, in one section / in thousands of
        # small sections (v3), after hundreds of thread-map entries, through every kind of stream object
        for m, k in ctx.pick(((3000, 1), (3000, 1500), (2500, 2500)), ((70000, 1), (70000, 35000), (5000, 5000), (3000, 1500))):
            recs = _gen.gen_records(rng, m, first_nonzero=True)
            for kind in ('v2', 'v3'):
                data = wire.v2_file([], 8, recs) if kind == 'v2' else \
                    wire.V3Spec(chunks=[recs[i * m // k:(i + 1) * m // k] for i in range(k)]).build()
                try:
                    got = [wire.event_tuple(e) for e in KdBufParser({}, {}).parse(wire.stream(data)) if hasattr(e, 'debugid')]
                except Exception as e:
                    res.violation(f'c01-container-raises-{core.exc_name(e)}', f'{m} records in a {kind} dump'
                                  + (f' of {k} sections' if kind == 'v3' else '') + f': {e!r}', {'file': data if len(data) < 400000 else data[:4096]})
                    break
                res.count('records_via_container', len(got))
                res.count('long_captures_decoded')
                if got != [wire.ref_tuple(r) for r in recs]:
                    j = next((i for i, (a, b) in enumerate(zip(got, [wire.ref_tuple(r) for r in recs])) if a != b), min(len(got), m))
                    res.violation('c01-via-container', f'record {j} of {m} read through a {kind} dump'
                                  + (f' of {k} sections' if kind == 'v3' else '') + ' decodes differently from the reference',
                                  {'file': data if len(data) < 400000 else data[:4096]})
                    break
        # records of several dumps decoded at the same time (generators advanced alternately)
        from props import c02
        for _ in range(ctx.pick(10, 100)):
            c02.interleaved_parses(res, rng, rng.choice((('v2', 'v2'), ('v2', 'v3'), ('v3', 'v3'))), prefix='c01')
            c02.threaded_parses(res, rng, rng.choice((('v2', 'v2'), ('v2', 'v3'), ('v3', 'v3'))), prefix='c01')
    finally:
        undo()
    res.count('contract_evaluations', log.evaluations)
    res.notes['contract_backend'] = 'icontract' if monitors.HAVE_ICONTRACT else 'plain wrapper'
    for key, what, case in log.failures:
        res.violation(key, 'contract on from_kd_buf: ' + what, case)


def run(ctx):
    res = core.Result()
    rng = ctx.rng
    # (a) bit walk
    bases = [bytes(64), b'\xff' * 64, TEST_VECTOR, bytes(range(64))]
    nb = ctx.pick(64, 4096 // ctx.nshards)
    while len(bases) < nb:
        bases.append(rng.randbytes(64))
    for base in bases:
        bev = decode(res, base, 'bit-walk base')
        res.case(base)
        for bit in range(512):
            locality(res, base, bev, bit)
    res.count('bit_walk_bases', len(bases))
    # (b) field extremes: full product
    ext = {8: [0, 1, 0x7fffffffffffffff, 0x8000000000000000, 0xffffffffffffffff, 0x0123456789abcdef],
           4: [0, 1, 0x7fffffff, 0x80000000, 0xffffffff, 0xfffffffc]}
    argsets = [bytes(32), b'\xff' * 32, bytes(range(32)), b'\x00' * 31 + b'\x80', b'\x01' + b'\x00' * 31,
               b'\xff' * 8 + b'\x00' * 24]
    idx = 0
    for ts in ext[8]:
        for args in argsets:
            for tid in ext[8]:
                for dbg in ext[4] + [0x3, 0xfffffff8 | 0x4, 0x7]:
                    for cpu in ext[4]:
                        for unused in ext[8]:
                            idx += 1
                            if not ctx.mine(idx):
                                continue
                            rec = wire.record(ts, args, tid, dbg, cpu, unused)
                            decode(res, rec, 'field extremes')
                            res.case(rec)
                            res.count('extreme_products')
    # (b2) couplings between fields: a decoder that treats one field specially when it *relates* to another (equal bytes,
    # equal words, one field holding another's top byte) is invisible to single-bit walks and independent extremes
    coupling_bases = [rng.randbytes(64) for _ in range(ctx.pick(3, 24))] + [bytes(64)]
    n_pairs = 0
    for base in coupling_bases:
        for i in range(64):
            for j in range(64):
                if i == j:
                    continue
                n_pairs += 1
                if not ctx.mine(n_pairs):
                    continue
                rec = bytearray(base)
                rec[j] = rec[i] if base != bytes(64) else 0
                if base == bytes(64):
                    rec[i] = rec[j] = 1 + (i * 7 + j) % 255
                rec = bytes(rec)
                decode(res, rec, f'byte {j} made equal to byte {i}')
                res.case(rec)
                res.count('byte_couplings')
        # word-level: every field's value (as it would sit in another field) copied into every other field
        spans = [(0, 8), (8, 16), (16, 24), (24, 32), (32, 40), (40, 48), (48, 52), (52, 56), (56, 64)]
        for (a0, a1) in spans:
            for (b0, b1) in spans:
                if (a0, a1) == (b0, b1):
                    continue
                rec = bytearray(base if base != bytes(64) else rng.randbytes(64))
                w = min(a1 - a0, b1 - b0)
                for variant in ('low', 'high', 'high_byte_to_low'):
                    r2 = bytearray(rec)
                    if variant == 'low':
                        r2[b0:b0 + w] = rec[a0:a0 + w]
                    elif variant == 'high':
                        r2[b1 - w:b1] = rec[a1 - w:a1]
                    else:
                        r2[b0:b1] = bytes(b1 - b0)
                        r2[b0] = rec[a1 - 1] or 1
                        r2[a1 - 1] = r2[b0]
                    decode(res, bytes(r2), f'field @{b0} coupled with field @{a0} ({variant})')
                    res.case(bytes(r2))
                    res.count('word_couplings')
    # (c) random records
    for i in range(ctx.pick(100000, 5000000 // ctx.nshards)):
        rec = rng.randbytes(64)
        decode(res, rec, 'random')
        res.case(rec)
        res.count('random_records')
    # (c2) the record held by every kind of buffer object
    for rec in [bytes(64), b'\xff' * 64, TEST_VECTOR, bytes(range(64))] + [rng.randbytes(64) for _ in range(ctx.pick(300, 5000))]:
        decode_carried(res, rec, rng)
    # (d) contract on the real function under the container parser
    contract_workload(res, ctx)
    res.sample({'record_hex': TEST_VECTOR.hex(), 'reference': {k: (v.hex() if isinstance(v, bytes) else v)
                                                             for k, v in wire.ref_decode(TEST_VECTOR).items()}})
    res.sample({'record_hex': bases[-1].hex(), 'kind': 'random bit-walk base, 512 single-bit neighbours decoded'})
    res.sample({'kind': 'field extremes', 'timestamp': ext[8], 'debugid': ext[4] + [3, 0xfffffffc, 7]})
    res.assumptions += ['reference decode = int.from_bytes on literal slices (vlib/wire.py)',
                        '2^512 inputs are sampled with structure, not enumerated']
    res.require('bit_flips', 512)
    res.require('byte_couplings', 1000)
    res.require('threaded_parses', 6)
    res.require('carriers_decoded', 1000)
    res.require('long_captures_decoded', 4)
    res.require('contract_evaluations', 1)
    return res


def replay(case, ctx):
    res = core.Result()
    rec = case['record']
    ev = decode(res, rec, 'replay')
    if 'bit' in case:
        locality(res, rec, ev, case['bit'])
    return res
