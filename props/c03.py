"""C03 - a version-3 dump yields all chunked events, then logs, plus metadata sections.

Monitor: generated v3 files (vlib.wire.V3Spec = ground-truth model) parsed by the real container parser; oracle =
the generator's model (events of all chunks in file order before any log, chunking metamorphism, metadata equal
to payloads, list-valued sections concatenated in file order, logs in order through the inverted string index,
tables = thread map + log-declared threads).  The from_kd_buf contract stays attached.
"""
import io

from vlib import core, wire, gen, logs, monitors

LEVEL = 'exploration'
RULE = ('v3 files built from (cpu-info plist, stackshot/threadmap/events fillers holding partial marker prefixes, thread '
        'map, an event sequence split into 1..k chunks incl. empty ones, metadata/log/unknown blocks in random order '
        'and multiplicity, last block with/without alignment padding); non-trivial = file with events or blocks '
        'whose stream and attributes were compared with the model; distinct = distinct file bytes')
QUICK_SHARDS = 4
THOROUGH_SHARDS = 16


def case_of(f):
    return {'file': f['data']}


def expected_tables(f):
    tp, pn = wire.threadmap_model(f['entries'])
    inv = f['model']['strings'] if f['model'] else {}
    for raw in (f['model']['logs'] if f['model'] else []):
        if 'p' in raw and inv[raw['p']] and raw['tid']:
            pid = raw.get('pid', 0)
            tp[raw['tid']] = pid
            pn[pid] = inv[raw['p']]
    return tp, pn


def check_file(res, f, where=''):
    from pykdebugparser.kd_buf_parser import KdBufParser
    from pykdebugparser.os_log_event import OsLogEvent
    tp, pn = {123456789: 1}, {1: 'stale'}
    parser = KdBufParser(tp, pn)
    items = []
    try:
        for x in parser.parse(wire.stream(f['data'])):
            items.append(x)
    except Exception as e:
        res.violation(f'c03-raises-{core.exc_name(e)}', f'parsing a well-formed v3 file raised {e!r} at '
                      f'{core.short_tb(e)} after {len(items)} items {where}', case_of(f))
        return None
    is_log = [isinstance(x, OsLogEvent) for x in items]
    n_ev = is_log.index(True) if True in is_log else len(items)
    if any(not l for l in is_log[n_ev:]):
        res.violation('c03-order-events-after-log', f'an event was yielded after a log record {where}', case_of(f))
        return None
    try:
        got = [wire.event_tuple(e) for e in items[:n_ev]]
    except Exception as e:
        res.violation('c03-shape', f'{e!r}', case_of(f))
        return None
    exp = [wire.ref_tuple(r) for r in f['records']]
    if got != exp:
        k = next((i for i, (a, b) in enumerate(zip(got, exp)) if a != b), min(len(got), len(exp)))
        res.violation('c03-events', f'expected {len(exp)} events (chunks {[len(c) for c in f["spec"].chunks]}), '
                      f'observed {len(got)}; first difference at index {k} {where}', case_of(f))
        return None
    res.count('events_compared', len(got))
    res.count(f'chunks_{min(len(f["spec"].chunks), 5)}')
    if any(not c for c in f['spec'].chunks):
        res.count('files_with_empty_chunk')
    m = f['model']
    if m is not None:
        # metadata
        checks = [
            ('trace_codes', parser.trace_codes, m['trace_codes']),
            ('kernel_extensions', parser.kernel_extensions.get('Binaries') if isinstance(parser.kernel_extensions, dict)
             else parser.kernel_extensions, m['kexts']),
            ('dyld_modules', parser.dyld_modules, m['dyld'] if m['dyld'] is not None else {}),
            ('processes', parser.processes, m['processes']),
            ('images', parser.images, m['images']),
        ]
        for name, got_v, exp_v in checks:
            if got_v != exp_v:
                res.violation(f'c03-meta-{name}', f'{name}: observed {str(got_v)[:300]} expected {str(exp_v)[:300]} {where}',
                              case_of(f))
        res.count('metadata_sections_compared', len(checks))
        # logs
        got_logs = items[n_ev:]
        if len(got_logs) != len(m['logs']):
            res.violation('c03-logs-count', f'{len(got_logs)} log records yielded, {len(m["logs"])} in the file {where}',
                          case_of(f))
        else:
            for i, (g, raw) in enumerate(zip(got_logs, m['logs'])):
                bad = logs.compare(g, logs.ref_decode(raw, m['strings']))
                if bad:
                    res.violation('c03-log-field-' + bad[0][0].split('.')[0],
                                  f'log record {i}: {[(b[0], str(b[1])[:80], str(b[2])[:80]) for b in bad[:4]]} {where}',
                                  case_of(f))
                    break
            res.count('log_records_compared', len(got_logs))
            if got_logs:
                res.count('files_with_logs')
    # tables
    etp, epn = expected_tables(f)
    if tp != etp or pn != epn:
        res.violation('c03-tables', f'tables after the parse: threads_pids {dict(list(tp.items())[:6])} expected '
                      f'{dict(list(etp.items())[:6])}; pids_names {dict(list(pn.items())[:6])} expected '
                      f'{dict(list(epn.items())[:6])} {where}', case_of(f))
    res.count('tables_compared')
    # header
    h = parser.v3_header
    hk = f['spec'].header_kw
    if h is None or any(getattr(h, a, None) != hk[b] for a, b in
                        (('timebase_numer', 'numer'), ('timebase_denom', 'denom'), ('timestamp', 'timestamp'),
                         ('walltime_secs', 'wall_secs'), ('walltime_usecs', 'wall_usecs'),
                         ('timezone_minuteswest', 'tz_minuteswest'), ('flags', 'flags'))) or h.cpu_info != f['spec'].cpu_info:
        res.violation('c03-header', f'v3 header fields differ from the file {where}', case_of(f))
    return got


def cli_sections(res, f):
    """The command line's `processes`, `kexts` and `images` commands print the dump's sections."""
    import json
    from vlib import cli
    m = f['model']
    want = {'processes': m['processes'], 'kexts': {'Binaries': m['kexts']}, 'images': m['images']}
    for cmd, exp in want.items():
        out, exc, _ = cli.run(cmd, f['data'])
        if exc is not None:
            res.violation(f'c03-cli-raises-{core.exc_name(exc)}', f'`{cmd}`: {exc!r}', case_of(f))
            return
        try:
            got = json.loads(out)
        except ValueError:
            got = out
        res.count('cli_sections_compared')
        if got != exp:
            res.violation(f'c03-cli-{cmd}', f'`{cmd}` prints {str(got)[:200]}, the dump holds {str(exp)[:200]}', case_of(f))
            return


def deferred_consumption(res, rng):
    """Two parses requested on one parser object before either is consumed (generators are lazy), then consumed one
    after the other: each dump's sections, inspected right after its own exhaustion, must be its own."""
    from pykdebugparser.kd_buf_parser import KdBufParser
    fa, fb = gen.gen_v3(rng), gen.gen_v3(rng)
    parser = KdBufParser({}, {})
    try:
        ga, gb = parser.parse(io.BytesIO(fa['data'])), parser.parse(io.BytesIO(fb['data']))
        for f, g in ((fa, ga), (fb, gb)):
            items = list(g)
            m = f['model']
            got = {'trace_codes': parser.trace_codes, 'kernel_extensions': parser.kernel_extensions.get('Binaries'),
                   'dyld_modules': parser.dyld_modules, 'processes': parser.processes, 'images': parser.images}
            want = {'trace_codes': m['trace_codes'], 'kernel_extensions': m['kexts'],
                    'dyld_modules': m['dyld'] if m['dyld'] is not None else {}, 'processes': m['processes'],
                    'images': m['images']}
            res.count('deferred_parses_checked')
            for k in want:
                if got[k] != want[k]:
                    res.violation(f'c03-meta-{k}', f'two parses requested up front on one parser object, consumed in turn: '
                                  f'{k} after exhausting dump {"AB"[f is fb]} is {str(got[k])[:200]}, its payload says '
                                  f'{str(want[k])[:200]}', {'file': f['data'], 'other': (fb if f is fa else fa)['data']})
                    return
            n_ev = sum(1 for x in items if hasattr(x, 'debugid'))
            if n_ev != len(f['records']):
                res.violation('c03-events', f'deferred consumption: {n_ev} events of {len(f["records"])}', {'file': f['data']})
                return
    except Exception as e:
        res.violation(f'c03-raises-{core.exc_name(e)}', f'deferred consumption of two parses: {e!r}', {'file': fa['data']})


def straddle_workload(res, ctx, rng):
    """Scale / alignment ladder for the marker scans: the stackshot, the filler before the thread map and the filler
    before an events chunk are long, and their length places the marker that ends them across a power-of-two block edge
    (every split of the marker's bytes), counted from the start of the scan and from the start of the file."""
    recs = gen.gen_records(rng, 6, first_nonzero=False)
    entries = [(11, 100, b'proc0', b''), (12, 200, b'proc1', b'junk')]
    blocks_sizes = ctx.pick((4096, 8192, 65536), (512, 1024, 4096, 8192, 16384, 32768, 65536, 131072, 1 << 20))
    probe = wire.V3Spec(entries=entries, chunks=[recs[:3], recs[3:]], header_kw={'numer': 125, 'denom': 3, 'timestamp': 77,
                        'wall_secs': 1600000000, 'wall_usecs': 5, 'tz_minuteswest': 60, 'tz_dst': 0, 'flags': 1}).build()
    base_off = probe.find(wire.STACKSHOT_END)          # where the stackshot scan starts (header end)
    n = 0
    for which, marker in (('stackshot', wire.STACKSHOT_END), ('threadmap', wire.TAG_THREADMAP), ('events', wire.TAG_EVENTS)):
        for B in blocks_sizes:
            for k in range(1, len(marker)):
                for origin in ('scan', 'file'):
                    n += 1
                    if not ctx.mine(n):
                        continue
                    # the marker starts k bytes before a block edge
                    L = B - k - (base_off if origin == 'file' and which == 'stackshot' else 0)
                    filler = wire.sanitize_filler(bytes(rng.randrange(1, 255) for _ in range(L % (2 * B) + (B if L < 0 else 0))),
                                                  wire.STACKSHOT_END, wire.TAG_THREADMAP, wire.TAG_EVENTS)
                    kw = {'entries': entries, 'chunks': [recs[:3], recs[3:]],
                          'header_kw': {'numer': 125, 'denom': 3, 'timestamp': 77, 'wall_secs': 1600000000, 'wall_usecs': 5,
                                        'tz_minuteswest': 60, 'tz_dst': 0, 'flags': 1}}
                    if which == 'stackshot':
                        kw['pre_stackshot'] = filler
                    elif which == 'threadmap':
                        kw['pre_threadmap'] = filler
                    else:
                        kw['chunk_fillers'] = [b'', filler] if k % 2 else [filler, b'']
                    spec = wire.V3Spec(**kw)
                    try:
                        data = spec.build()
                    except AssertionError:
                        continue
                    f = {'kind': 'v3', 'entries': entries, 'records': recs, 'spec': spec, 'data': data, 'model': None}
                    check_file(res, f, where=f'({which} marker {k} bytes before a {B}-byte block edge counted from the {origin})')
                    res.case(data)
                    res.count('marker_straddle_files')


def partition_check(res, f):
    """kevents / os_log_events partition the stream."""
    from pykdebugparser.pykdebugparser import PyKdebugParser
    from pykdebugparser.os_log_event import OsLogEvent
    try:
        ke = list(PyKdebugParser().kevents(wire.stream(f['data'])))
        lo = list(PyKdebugParser().os_log_events(wire.stream(f['data'])))
    except Exception as e:
        res.violation(f'c03-front-raises-{core.exc_name(e)}', f'{e!r}', case_of(f))
        return
    if any(isinstance(x, OsLogEvent) for x in ke) or any(not isinstance(x, OsLogEvent) for x in lo):
        res.violation('c03-partition', 'kevents yielded a log record or os_log_events yielded an event', case_of(f))
    if len(ke) != len(f['records']) or (f['model'] and len(lo) != len(f['model']['logs'])):
        res.violation('c03-partition-count', f'kevents {len(ke)}/{len(f["records"])}, logs {len(lo)}', case_of(f))
    res.count('partition_checks')


def run(ctx):
    res = core.Result()
    rng = ctx.rng
    log = monitors.ContractLog()
    undo = monitors.attach_from_kd_buf_contract(log)
    try:
        for i in range(ctx.pick(200, 20000)):
            f = gen.gen_v3(rng)
            check_file(res, f)
            res.case(f['data'], nontrivial=bool(f['records'] or f['spec'].blocks))
            if i % 5 == 0:
                partition_check(res, f)
            if i % 6 == 0 and f['model'] is not None:
                cli_sections(res, f)
            if i % 4 == 0:
                deferred_consumption(res, rng)
        # large dumps: many records in many chunks, hundreds of thread-map entries and log records
        # (and the number of sections is a size of its own: a capture of a busy machine is written out in thousands of
        # small events sections)
        for m, k in ctx.pick(((5000, None), (4000, 1100), (5000, 2600)),
                             ((70000, None), (3000, None), (140000, None), (70000, 35000), (140000, 66000))):
            recs = gen.gen_records(rng, m, first_nonzero=False)
            f = gen.gen_v3(rng, n=300, chunks=gen.split_chunks(rng, recs, k or rng.choice((1, 7, 40))))
            if k:
                res.count('dumps_with_thousands_of_sections')
            f['records'] = recs
            check_file(res, f, where='(large dump)')
            res.case(f['data'])
            res.count('large_files')
        straddle_workload(res, ctx, rng)
        # chunking metamorphism: one event sequence under every split into up to 3 chunks
        for _ in range(ctx.pick(6, 60)):
            recs = gen.gen_records(rng, rng.randrange(0, 7), first_nonzero=False)
            base = None
            n = len(recs)
            for a in range(n + 1):
                for b in range(a, n + 1):
                    chunks = [recs[:a], recs[a:b], recs[b:]]
                    f = gen.gen_v3(rng, n=2, with_blocks=False, chunks=chunks)
                    f['records'] = recs
                    got = check_file(res, f, where=f'(chunking {a},{b - a},{n - b})')
                    res.case(f['data'])
                    res.count('chunkings_executed')
                    if got is not None:
                        if base is None:
                            base = got
                        elif got != base:
                            res.violation('c03-chunking-metamorphism', f'events depend on the chunking ({a},{b})',
                                          case_of(f))
    finally:
        undo()
    res.count('contract_evaluations', log.evaluations)
    for key, what, case in log.failures:
        res.violation(key, 'contract on from_kd_buf: ' + what, case)
    f = gen.gen_v3(core.Ctx('C03', ctx.tier, ctx.seed).rng, m=3, n=2)
    res.sample({'file_len': len(f['data']), 'chunks': [len(c) for c in f['spec'].chunks],
                'blocks': [(t.hex(), len(p)) for t, p in f['spec'].blocks],
                'pre_stackshot_hex': f['spec'].pre_stackshot.hex()[:80], 'entries': len(f['entries'])})
    res.assumptions += ['fillers are sanitised so that the first occurrence of each marker is the intended one',
                        'at most one block of each dict-valued section (processes, images, string index)',
                        'log records here avoid the C16 findings classes (no tai key, arguments carry a category, '
                        'log-namespace trace identifiers); C16 covers those']
    res.require('events_compared', 10)
    res.require('log_records_compared', 1)
    res.require('chunkings_executed', 1)
    res.require('files_with_empty_chunk', 1)
    res.require('contract_evaluations', 1)
    res.require('deferred_parses_checked', 4)
    res.require('cli_sections_compared', 6)
    res.require('marker_straddle_files', 20)
    return res


def replay(case, ctx):
    from pykdebugparser.kd_buf_parser import KdBufParser
    res = core.Result()
    try:
        items = list(KdBufParser({}, {}).parse(io.BytesIO(case['file'])))
        print(f'replay: {len(items)} items parsed without error (model not stored in the replay file)')
    except Exception as e:
        res.violation(f'c03-raises-{core.exc_name(e)}', repr(e), case)
    return res
