"""C09 - syscall arguments are rendered from the matching START argument, in order.

Monitor: differential taint at the rendering boundary.  For every BSD syscall / Mach trap decoder whose text has
the shape name(p0, p1, ...) the real pipeline is run on sentinel START words that are pairwise distinct under
every accepted rendering; one word at a time is replaced and the rendered parameter tokens are compared.  A
numeric token at position k must be a rendering of START word k and may react to no other word, to no END word and
to no unrelated nested record; the whole call part must be invariant under END records and unrelated records.
"""
import re

from vlib import core, ev, domain, histories as H, render, stream

LEVEL = 'exploration'
RULE = ('for each BSD/Mach-trap decoder of call shape: K sentinel START tuples (enum-valued words range over their '
        'enum) x single-word replacements x END tuples (success/error/huge) x unrelated nested records x lookups; '
        'non-trivial = rendering whose parameter tokens were compared position by position; distinct = distinct '
        '(decoder, START tuple, END tuple) cases')
QUICK_SHARDS = 8
THOROUGH_SHARDS = 16
# parameters whose Darwin prototype is narrower than a register and that the tool shows as such (the only ones on the
# unchanged tree): semaphore_timedwait_trap(mach_port_name_t wait_name, unsigned int sec, clock_res_t nsec)
NARROW_PARAMETERS = {('MSC_semaphore_timedwait_trap', 1): 32}
WORD_BOUNDARIES = (0, 1, 0x7f, 0x80, 0xff, 0x7fff, 0x8000, 0xffff, (1 << 31) - 1, 1 << 31, (1 << 31) + 0x1234, (1 << 32) - 1,
                   1 << 32, (1 << 32) + 0x1234, (1 << 63) - 1, 1 << 63, (1 << 64) - 1) + domain.SENTINEL_WORDS
MARK = [b'/PMa/x', b'/PMb/y', b'/PMc/z', b'/PMd/w', b'/PMe/v', b'/PMf/u', b'/PMg/t']


def loose_value(tok):
    v = render.numeric_value(tok)
    if v is None and re.fullmatch(r'[0-9a-f]+', tok):
        return int(tok, 16)
    return v


def render_outer(name, start, end, lookups=(), junk=()):
    nested = list(junk)
    for j, p in enumerate(lookups):
        nested += H.lookup(0x40 + j, p)
    parser = ev.new_parser()
    out = None
    for e in H.materialize(H.on_thread(6, H.syscall(name, start, end, nested))):
        t = parser.feed(e)
        if t is not None and t.ktraces[0].eventid == ev.eid(name) and t.ktraces[0].func_qualifier == 1:
            out = str(t)
    return out


def sentinel_start(rng, name):
    words = domain.distinct_words(rng, 4)
    words = [w | (1 << 63) if rng.random() < 0.5 else w for w in words]
    enums = domain.enum_positions(name)
    spec = domain.TABLE.get(name, {})
    for (w, idx), s in spec.items():
        if w == 'S':
            words[idx] = s(rng) if callable(s) else rng.choice(s)
    if name in ('BSC_setsockopt', 'BSC_getsockopt') and words[1] == domain.SOL_SOCKET_DARWIN:
        words[2] = rng.choice(domain.SOCKOPT_NAMES)
    return words, enums


def replace_word(rng, name, words, j):
    new = list(words)
    spec = domain.TABLE.get(name, {}).get(('S', j))
    for _ in range(50):
        if spec is None:
            cand = domain.distinct_words(rng, 1)[0]
        else:
            cand = spec(rng) if callable(spec) else rng.choice(spec)
        if cand != words[j]:
            new[j] = cand
            break
    if name in ('BSC_setsockopt', 'BSC_getsockopt'):
        if new[1] == domain.SOL_SOCKET_DARWIN and new[2] not in domain.SOCKOPT_NAMES:
            new[2] = rng.choice(domain.SOCKOPT_NAMES)
    return new


def check_decoder(res, ctx, rng, name):
    case0 = {'name': name}
    for k_iter in range(ctx.pick(8, 600)):
        start, enums = sentinel_start(rng, name)
        end = [0, domain.distinct_words(rng, 1)[0] >> 8, domain.distinct_words(rng, 1)[0], domain.distinct_words(rng, 1)[0]]
        lookups = MARK[:rng.choice((0, 2, 7))]
        case = {'name': name, 'start': start, 'end': end, 'lookups': list(lookups)}
        try:
            text0 = render_outer(name, start, end, lookups)
        except Exception as x:
            res.violation(f'c09-raises-{core.exc_name(x)}', f'{name}: {x!r} on start={start}', case)
            return
        if text0 is None:
            res.violation('c09-no-trace', f'{name}: no trace for a START..END window', case)
            return
        sc = render.split_call(text0)
        if sc is None:
            res.count('decoders_not_of_call_shape')
            return
        if k_iter < 3:
            nested0 = [a for j, p in enumerate(lookups) for a in H.lookup(0x40 + j, p)]
            lk = [f'lookup("{p.decode()}"), vnode id: {0x40 + j}' for j, p in enumerate(lookups)]
            STREAM_CASES.append((H.syscall(name, start, end, nested0), lk + [text0], f'{name} start={[hex(w) for w in start]}'))
        _, tokens0, rest0 = sc
        res.case((name, tuple(start), tuple(end)))
        res.count('renderings_tokenized')
        # (1) numeric tokens are renderings of the word at their own position
        for k, tok in enumerate(tokens0):
            v = render.numeric_value(tok)
            if v is None:
                continue
            res.count('numeric_tokens_checked')
            if k < 4:
                w = start[k]
                full = {w, w - (1 << 64) if w >> 63 else w}
                if v in full:
                    continue
                if v in render.renderings(w):
                    if (name, k) in NARROW_PARAMETERS and v == w & ((1 << NARROW_PARAMETERS[(name, k)]) - 1):
                        res.count('declared_narrow_parameters')
                        continue
                    res.violation('c09-parameter-truncated', f'{name}: parameter {k} shows {tok}, only the low bits of the '
                                  f'recorded argument {hex(w)} (= {w} / {w - (1 << 64) if w >> 63 else w}): {text0!r}', case)
                    return
            others = [j for j in range(4) if j != k and v in render.renderings(start[j])]
            ends = [j for j in range(4) if v in render.renderings(end[j]) and end[j] != 0]
            if others:
                res.violation('c09-wrong-start-word', f'{name}: parameter {k} shows {tok}, a rendering of START word '
                              f'{others[0]} ({hex(start[others[0]])}), not of word {k} ({hex(start[k]) if k < 4 else "-"}): '
                              f'{text0!r}', case)
                return
            if ends:
                res.violation('c09-end-word-in-call', f'{name}: parameter {k} shows {tok}, a rendering of END word '
                              f'{ends[0]}: {text0!r}', case)
                return
            res.violation('c09-parameter-not-a-rendering', f'{name}: parameter {k} shows {tok}, which is neither the decimal, '
                          f'the signed nor the 0x form of START word {k} ({hex(start[k]) if k < 4 else "-"}) nor of any other '
                          f'word of the window: {text0!r}', case)
            return
        # (1b) boundary values of the word itself (the sentinels above are all >= 2^62): a parameter that shows a number
        # shows its own word's full 64-bit value also at 0, around 2^31 / 2^32 and at the ends of the range
        if k_iter < ctx.pick(2, 6):
            for j in range(min(4, len(tokens0))):
                # a position counts as numeric when, for the sentinel word, it shows a number of that word - also one
                # written in hexadecimal without a prefix (read as decimal, such a token names another number)
                if j in enums or ('S', j) in domain.TABLE.get(name, {}) or loose_value(tokens0[j]) not in render.renderings(start[j]):
                    continue
                for b in WORD_BOUNDARIES:
                    s1 = list(start)
                    s1[j] = b
                    try:
                        t1 = render_outer(name, s1, end, lookups)
                    except Exception as x:
                        res.violation(f'c09-raises-{core.exc_name(x)}', f'{name}: {x!r} on start={s1}', dict(case, start=s1))
                        return
                    sc1 = render.split_call(t1) if t1 else None
                    if sc1 is None or len(sc1[1]) != len(tokens0):
                        continue
                    v = render.numeric_value(sc1[1][j])
                    res.count('boundary_words_checked')
                    if v is None or v in {b, b - (1 << 64) if b >> 63 else b}:
                        continue
                    if (name, j) in NARROW_PARAMETERS and v == b & ((1 << NARROW_PARAMETERS[(name, j)]) - 1):
                        continue
                    if v in render.renderings(b):
                        res.violation('c09-parameter-truncated', f'{name}: parameter {j} shows {sc1[1][j]} for the recorded '
                                      f'argument {hex(b)} (= {b}): only a narrower reading of the word: {t1!r}',
                                      dict(case, start=s1))
                        return
                    if v != render.numeric_value(tokens0[j]):
                        res.violation('c09-parameter-not-a-rendering', f'{name}: parameter {j} shows {sc1[1][j]} for the recorded '
                                      f'argument {hex(b)} (= {b}): not its decimal, signed or 0x form: {t1!r}', dict(case, start=s1))
                        return
                    if v == render.numeric_value(tokens0[j]):
                        res.violation('c09-parameter-ignores-its-word', f'{name}: parameter {j} stays {tokens0[j]} when START '
                                      f'word {j} becomes {hex(b)}', dict(case, start=s1))
                        return
        # (2) single-word replacement: position k may react to word k only (numeric tokens), and must react to it
        for j in range(4):
            s2 = replace_word(rng, name, start, j)
            if s2 == start:
                continue
            try:
                t2 = render_outer(name, s2, end, lookups)
            except Exception as x:
                res.violation(f'c09-raises-{core.exc_name(x)}', f'{name}: {x!r} on start={s2}', case)
                return
            sc2 = render.split_call(t2) if t2 else None
            if sc2 is None:
                res.violation('c09-shape-changes', f'{name}: rendering loses its call shape when word {j} changes', case)
                return
            tokens2 = sc2[1]
            res.count('single_word_replacements')
            if len(tokens2) != len(tokens0):
                continue   # optional parameters (e.g. a mode shown only with O_CREAT)
            for k, (a, b) in enumerate(zip(tokens0, tokens2)):
                num = render.numeric_value(a) is not None and render.numeric_value(b) is not None
                if a != b and k != j and num:
                    res.violation('c09-parameter-depends-on-other-word', f'{name}: numeric parameter {k} changed '
                                  f'({a} -> {b}) when only START word {j} changed', dict(case, start2=s2))
                    return
                if a == b and k == j and num and j not in enums:
                    res.violation('c09-parameter-ignores-its-word', f'{name}: numeric parameter {k} stayed {a} although '
                                  f'START word {k} changed from {hex(start[k])} to {hex(s2[k])}', dict(case, start2=s2))
                    return
        # (3) the call part is invariant under the END record and under unrelated nested records
        cp0 = render.call_part(text0)
        for variant in range(3):
            e2 = domain.gen_words(rng, name, 'E')
            if name.startswith('BSC_'):
                e2[0] = rng.choice((0, 2, 35, 9999, 1 << 40))
            junk = H.unrelated(rng, rng.randrange(0, 3)) if variant else []
            try:
                t3 = render_outer(name, start, e2, lookups, junk)
            except Exception as x:
                res.violation(f'c09-raises-{core.exc_name(x)}', f'{name}: {x!r} on end={e2}', dict(case, end2=e2))
                return
            res.count('end_and_nesting_variants')
            if t3 is None or render.call_part(t3) != cp0:
                res.violation('c09-call-part-depends-on-end', f'{name}: call part {cp0!r} became '
                              f'{render.call_part(t3) if t3 else None!r} when only the END record / unrelated nested records '
                              f'changed', dict(case, end2=e2, junk=[list(map(str, j)) for j in junk]))
                return
        # (3b) words of another event never show: an unfinished START of the same call on the same thread (its END was
        # lost) and a complete call of the same code on another thread precede the real pair
        stale = replace_word(rng, name, replace_word(rng, name, start, 0), 2)
        other = replace_word(rng, name, replace_word(rng, name, start, 1), 3)
        items = [(6, H.A(name, H.START, stale)), (7, H.A(name, H.START, other))]
        items += H.on_thread(6, H.syscall(name, start, end, [a for j, p in enumerate(lookups) for a in H.lookup(0x40 + j, p)]))
        items += [(7, H.A(name, H.END, end))]
        try:
            parser = ev.new_parser()
            t4 = None
            for e in H.materialize(items):
                t = parser.feed(e)
                if t is not None and t.ktraces[0].tid == 6 and t.ktraces[0].eventid == ev.eid(name):
                    t4 = str(t)
        except Exception as x:
            res.violation(f'c09-raises-{core.exc_name(x)}', f'{name}: {x!r} after an unfinished START', case)
            return
        res.count('stale_start_variants')
        if t4 != text0:
            res.violation('c09-words-of-another-event', f'{name}: after an unfinished START of the same call (words '
                          f'{[hex(w) for w in stale]}) the completed call renders {t4!r}, a clean pair renders {text0!r}',
                          dict(case, stale=stale))
            return
        # (3c) ... nor do the words of a call that is open on ANOTHER thread which, inside that call, emits a record naming
        # this thread (a new-thread / exec / terminate announcement, scheduler and sampler records - H.NAMING in turn, every
        # free word naming thread 6 or its pid): such a record is a statement about tables, not about who made the call
        NAMING_TURN[0] += 1
        others = [n_ for n_ in H.NAMING if n_ not in TABLE_WRITERS]
        combos = [(x_, k_) for x_ in TABLE_WRITERS for k_ in (0, 1)] + \
                 [(others[NAMING_TURN[0] % len(others)], (NAMING_TURN[0] // len(others)) % 2)]
        nested6 = [a for j, p in enumerate(lookups) for a in H.lookup(0x40 + j, p)]
        for (x, k_), first in [(c_, f_) for c_ in combos for f_ in ('named thread starts first', 'announcer starts first')]:
            naming = H.A(x, H.NONE, H.naming_words(rng, x, 6, 600, k_))
            items = [(6, H.A(name, H.START, start)), (7, H.A(name, H.START, other))]
            if first == 'announcer starts first':
                items.reverse()
            items += [(7, naming)] + H.on_thread(6, nested6) + [(6, H.A(name, H.END, end)), (7, H.A(name, H.END, end))]
            try:
                parser = ev.new_parser()
                t5 = []
                for e in H.materialize(items):
                    t = parser.feed(e)
                    if t is not None and t.ktraces[0].tid == 6 and t.ktraces[0].eventid == ev.eid(name):
                        t5.append(str(t))
            except Exception as x_:
                res.violation(f'c09-raises-{core.exc_name(x_)}', f'{name}: {x_!r} with a {x} record of another thread inside its '
                              f'own open {name}', case)
                return
            res.count('announcer_variants')
            if t5 != [text0]:
                res.violation('c09-words-of-another-event', f'{name}: thread 7 has the same call open (words '
                              f'{[hex(w) for w in other]}) and emits a {x} record naming thread 6 ({first}): thread 6\'s call '
                              f'renders {t5}, a clean pair renders {text0!r}', dict(case, other=other, naming=x))
                return
        # (3d) another call of the same thread whose window OVERLAPS this one without nesting (opened before it and closed
        # inside it, or opened inside it and closed after it): windows are paired by code, not by nesting
        crossing = 'BSC_getpid' if name != 'BSC_getpid' else 'BSC_getppid'
        cw = [rng.getrandbits(64) for _ in range(4)]
        for shape in ('closes inside', 'opens inside'):
            if shape == 'closes inside':
                seq_x = [H.A(crossing, H.START, cw), H.A(name, H.START, start), H.A(crossing, H.END, (0, 5, 0, 0))] + nested6 + \
                    [H.A(name, H.END, end)]
            else:
                seq_x = [H.A(name, H.START, start)] + nested6 + [H.A(crossing, H.START, cw), H.A(name, H.END, end),
                                                                  H.A(crossing, H.END, (0, 5, 0, 0))]
            try:
                parser = ev.new_parser()
                t6 = [str(t) for t in (parser.feed(e) for e in H.materialize(H.on_thread(6, seq_x)))
                      if t is not None and t.ktraces[0].eventid == ev.eid(name)]
            except Exception as x_:
                res.violation(f'c09-raises-{core.exc_name(x_)}', f'{name}: {x_!r} with a {crossing} window that {shape} it', case)
                return
            res.count('crossing_window_variants')
            if t6 != [text0]:
                res.violation('c09-words-of-another-event', f'{name}: a {crossing} window of the same thread {shape} its window '
                              f'(overlapping, not nested): the call renders {t6}, a clean pair renders {text0!r}', case)
                return
        # (3e) a call that is RE-STARTED while this one is open, hundreds of records later (its first END was lost): START A,
        # START this call, 300 records of the thread, START A again, a third call opens and closes, END - the window of this
        # call still begins at its own START
        if NAMING_TURN[0] % 3 == 0:
            filler = [H.A(0x99990004 if k % 2 else 0x2a040000, H.NONE, (k, 0, 0, 0)) for k in range(300)]     # (ids no table names)
            third = 'BSC_getuid' if name != 'BSC_getuid' else 'BSC_getgid'
            seq_r = [H.A(crossing, H.START, cw), H.A(name, H.START, start)] + filler + \
                    [H.A(crossing, H.START, cw), H.A(third, H.START, (0, 0, 0, 0)), H.A(third, H.END, (0, 5, 0, 0))] + nested6 + \
                    [H.A(name, H.END, end)]
            try:
                parser = ev.new_parser()
                t7 = [str(t) for t in (parser.feed(e) for e in H.materialize(H.on_thread(6, seq_r)))
                      if t is not None and t.ktraces[0].eventid == ev.eid(name)]
            except Exception as x_:
                res.violation(f'c09-raises-{core.exc_name(x_)}', f'{name}: {x_!r} with a re-started {crossing} around it', case)
                return
            res.count('restarted_neighbour_variants')
            if t7 != [text0]:
                res.violation('c09-words-of-another-event', f'{name}: opened after a {crossing} START that is repeated 300 records '
                              f'later while the call is still open: the call renders {t7}, a clean pair renders {text0!r}', case)
                return
        # (4) quoted parameters come from the lookups, never from words
        for k, tok in enumerate(tokens0):
            if tok.startswith('"') and tok.endswith('"') and tok != '""':
                if tok[1:-1].encode() not in lookups:
                    res.violation('c09-quoted-parameter-not-a-lookup', f'{name}: parameter {k} = {tok}', case)
                    return
                res.count('quoted_tokens_checked')
    res.count('decoders_checked')


STREAM_CASES = []
NAMING_TURN = [0]
TABLE_WRITERS = ('TRACE_DATA_NEWTHREAD', 'TRACE_DATA_EXEC', 'TRACE_DATA_THREAD_TERMINATE_PID', 'PERF_THD_Data')


def same_call_on_all_threads(res, ctx, rng, names, n_threads=4, reps=25):
    """Several OS threads render the SAME call at the same moment, each with its own parser and its own argument words
    (half of them with the sign bit set): a scratch value that one decoder keeps at module level is only overwritten by
    another thread that is inside that very decoder.  Every thread shows its own START words."""
    import sys
    import threading
    old = sys.getswitchinterval()
    sys.setswitchinterval(1e-6)
    try:
        for name in names:
            work = []
            for k in range(n_threads):
                rows = []
                for _ in range(reps):
                    start, _e = sentinel_start(rng, name)
                    spec = domain.TABLE.get(name, {})
                    start = [w ^ (rng.getrandbits(1) << 63) if ('S', i) not in spec else w for i, w in enumerate(start)]
                    end = [0, rng.getrandbits(64), 0, 0]
                    try:
                        rows.append((start, end, render_outer(name, start, end)))
                    except Exception:
                        rows = []
                        break
                work.append(rows)
            if not all(work):
                continue                                    # (judged by check_decoder)
            failures = []
            barrier = threading.Barrier(n_threads)

            def worker(k):
                try:
                    barrier.wait(timeout=30)
                    for start, end, want in work[k]:
                        got = render_outer(name, start, end)
                        if got != want and len(failures) < 3:
                            failures.append((start, got, want))
                except Exception as x:                          # noqa
                    failures.append((None, f'raised {x!r}', None))
            threads = [threading.Thread(target=worker, args=(k,), daemon=True) for k in range(n_threads)]
            for t in threads:
                t.start()
            for t in threads:
                t.join(timeout=120)
            res.count('calls_rendered_by_all_threads_at_once', n_threads * reps)
            if failures:
                start, got, want = failures[0]
                res.violation('c09-words-of-another-event', f'{name} rendered by {n_threads} OS threads at the same moment (own '
                              f'parsers, own words): START {[hex(w) for w in start] if start else None} reads {got!r}, '
                              f'single-threaded {want!r}', {'name': name, 'start': start, 'end': [0, 0, 0, 0]})
                return
    finally:
        sys.setswitchinterval(old)


def related_nested(res, ctx, rng):
    """The records a kernel really logs inside a call - those whose name extends the call's name (BSC_pread_extended_info
    in BSC_pread, BSC_mmap_extended_info in BSC_mmap ...) - carrying words TIED to the call: every 4-tuple over the
    call's own START words, 0 and 1.  A decoder that starts to trust such a companion record shows its words, not the
    START's; the call part must read as without the companion."""
    import itertools
    table = ev.bundled_codes()
    bsd = set(H.inventory()['bsd'])
    decodable = set(H.inventory()['decodable'])
    pairs = [(d, cid) for d, cid in H.census_nested() if d in bsd and table[cid] not in decodable and
             (table[cid].startswith(d) or table[cid].startswith(d.replace('BSC_', 'BSC_sys_', 1))) and table[cid] != d]
    n = 0
    for d, cid in pairs:
        for twin in (d, d + '_nocancel'):
            if twin not in bsd:
                continue
            start, _ = sentinel_start(rng, twin)
            small = [3, 0x2000, 64, 0x10]
            spec = domain.TABLE.get(twin, {})
            start = [small[i] if ('S', i) not in spec else start[i] for i in range(4)]
            end = [0, 64, 0, 0]
            try:
                plain = render_outer(twin, start, end)
            except Exception:
                continue                                        # (judged by check_decoder)
            pool = sorted(set(start) | {0, 1})
            for words in itertools.product(pool, repeat=4):
                n += 1
                if not ctx.mine(n):
                    continue
                for q in (H.NONE,):
                    try:
                        got = render_outer(twin, start, end, junk=[H.A(cid, q, words)])
                    except Exception as x:
                        res.violation(f'c09-raises-{core.exc_name(x)}', f'{twin} with a nested {table[cid]} record {words}: {x!r}',
                                      {'name': twin, 'start': start, 'end': end})
                        return
                    res.count('related_nested_renderings')
                    if got != plain:
                        res.violation('c09-words-of-another-event', f'{twin}: with a nested {table[cid]} record carrying '
                                      f'{[hex(w) for w in words]} the call reads {got!r}, without it {plain!r} (START words '
                                      f'{[hex(w) for w in start]})', {'name': twin, 'start': start, 'end': end})
                        return
        res.case(('related-nested', d, cid))


def run(ctx):
    res = core.Result()
    import random
    H.set_clock(random.Random(ctx.seed * 7919 + ctx.shard))      # coarse / jittered time base: file order is the order
    rng = ctx.rng
    inv = H.inventory()
    names = inv['bsd'] + inv['mach_traps']
    for i, name in enumerate(names):
        if ctx.mine(i):
            check_decoder(res, ctx, rng, name)
    related_nested(res, ctx, rng)
    same_call_on_all_threads(res, ctx, rng, [n for i, n in enumerate(names) if ctx.mine(i)])
    stream.run_all(res, 'c09', STREAM_CASES, rng, 'call renderings', ctx)
    if ctx.shard == 0:
        s, _ = sentinel_start(core.Ctx('C09', ctx.tier, ctx.seed).rng, 'BSC_pread')
        res.sample({'decoder': 'BSC_pread', 'start_words': [hex(w) for w in s],
                    'rendering': render_outer('BSC_pread', s, (0, 5, 0, 0)),
                    'tokens': render.split_call(render_outer('BSC_pread', s, (0, 5, 0, 0)))[1]})
        res.sample({'decoder': 'BSC_ioctl', 'rendering': render_outer('BSC_ioctl', (3, 0x40087413, 0x1000, 0), (0, 0, 0, 0))})
    res.counters['decoders_in_scope'] = 0
    res.assumptions += ['accepted renderings of an argument: its unsigned or signed 64-bit value, in decimal or hexadecimal '
                        '(narrower only for the parameters listed in NARROW_PARAMETERS)', 'position = index of the parameter token in the call part']
    res.require('numeric_tokens_checked', 100)
    res.require('single_word_replacements', 100)
    res.require('decoders_checked', 20)
    res.require('stream_windows_one_thread', 20)
    res.require('boundary_words_checked', 200)
    res.require('file_windows_v3', 20)
    return res


def finalize(res):
    inv = H.inventory()
    res.counters['decoders_in_scope'] = len(inv['bsd'] + inv['mach_traps'])


def replay(case, ctx):
    res = core.Result()
    check_decoder(res, ctx, ctx.rng, case['name'])
    return res
