"""C07 - missing or unexpected context never aborts the trace stream.

Monitor: hostile histories built from individually in-domain events (vlib.domain) are fed to the real
TracesParser and every emitted trace is rendered; the oracle is 'no exception escapes feed() or str()'.
HandlerCoverage (sys.monitoring) shows which decoder functions were really entered.  Witnesses are shrunk with
ddmin and keyed by decoder function + exception type.
"""
import io

from vlib import core, ev, wire, domain, histories as H, monitors

LEVEL = 'exploration'
RULE = ('histories = for every decodable code a START..END window / single event with in-domain words under every '
        'dropped prefix, every dropped nested record and duplications; kernel-shaped scenario templates (path syscalls '
        'with 0..6 lookups, new-thread/exec pairs, strings + consumers, page faults with nested real-fault records of '
        'every kind, samplers, launch windows) mixed on 1-3 threads with omissions/repetitions/nesting; non-trivial = '
        'history with >= 1 event of a decodable code that was fed completely and whose traces were all rendered; '
        'distinct = distinct event sequences')
QUICK_SHARDS = 8
THOROUGH_SHARDS = 16


def run_history(events, via_file=False):
    """Feed a history through the real pipeline; returns (n_traces, exception or None, stage)."""
    n = 0
    if via_file:
        from pykdebugparser.pykdebugparser import PyKdebugParser
        data = wire.v2_file([(e.tid, 100 + e.tid % 7, b'proc%d' % (e.tid % 7)) for e in events[:3]], 8,
                            [wire.record(e.timestamp, e.data, e.tid, e.debugid) for e in events])
        p = PyKdebugParser()
        p.color = False
        try:
            for line in p.formatted_traces(io.BytesIO(data)):
                n += 1
        except Exception as e:
            return n, e, 'formatted_traces'
        try:
            for cs in p.formatted_callstacks(io.BytesIO(data)):
                n += 1
        except Exception as e:
            return n, e, 'formatted_callstacks'
        return n, None, None
    parser = ev.new_parser()
    for e in events:
        try:
            t = parser.feed(e)
        except Exception as x:
            return n, x, 'feed'
        if t is not None:
            n += 1
            try:
                str(t)
            except Exception as x:
                return n, x, 'str'
    return n, None, None


def check(res, events, label, via_file=False):
    res.case(tuple((e.debugid, e.data, e.tid) for e in events), nontrivial=bool(events))
    res.count('events_fed', len(events))
    n, exc, stage = run_history(events, via_file)
    res.count('traces_rendered', n)
    res.count('histories_via_file' if via_file else 'histories_via_feed')
    if exc is None:
        return True
    # v2 container needs a non-zero first byte (finding F02) - never an issue here, timestamps are >= 1000.
    sig = (type(exc), tuple(core.short_tb(exc, 2)))

    def fails(sub):
        _, x, _ = run_history(sub, via_file)
        return x is not None and (type(x), tuple(core.short_tb(x, 2))) == sig
    small = H.ddmin(events, fails)
    where = core.short_tb(exc, 2)
    key = f'c07-{core.exc_name(exc)}-{where[-1] if where else "?"}'
    res.violation(key, f'{label}: {exc!r} in {stage} at {where}; minimal history: {[ev.ev_brief(e) for e in small]}',
                  {'events': [ev.ev_to_case(e) for e in small], 'via_file': via_file})
    return False


def per_decoder(res, ctx, rng):
    inv = H.inventory()
    names = [n for i, n in enumerate(inv['decodable']) if ctx.mine(i)]
    for name in names:
        for rep in range(ctx.pick(2, 40)):
            if name in domain.TEXT_PAYLOAD:
                if name == 'VFS_LOOKUP':
                    seq = H.lookup(rng.getrandbits(40), rng.choice(H.PATHS))
                elif name == 'TRACE_STRING_GLOBAL':
                    seq = H.global_string(rng.randrange(1, 99), rng.choice(H.PATHS))
                elif name.startswith('TRACE_STRING_THREADNAME'):
                    seq = H.thread_name(rng.choice(domain.TEXTS) * 3, prev=name.endswith('PREV'))
                else:
                    seq = [H.A(name, rng.choice((H.NONE, H.ALL)), domain.text32(rng))]
            else:
                nested = H.unrelated(rng, rng.randrange(0, 3))
                if rng.random() < 0.5:
                    nested += H.lookup(rng.getrandbits(40), rng.choice(H.PATHS))
                seq = H.gen_syscall(rng, name, nested) if rng.random() < 0.7 else \
                    [H.A(name, rng.choice((H.NONE, H.ALL)), domain.gen_single(rng, name))]
            variants = [('complete', seq)] + H.hostile_variants(rng, seq, limit=ctx.pick(12, 60))
            for tag, v in variants:
                if not v:
                    continue
                events = H.materialize(H.on_thread(5, v))
                check(res, events, f'{name} [{tag}]')
                res.count(f'variant_{tag}')
    res.count('decoders_driven', len(names))


def scenario_mixes(res, ctx, rng):
    for h in range(ctx.pick(400, 40000)):
        nthreads = rng.choice((1, 1, 2, 3))
        programs = []
        for t in range(nthreads):
            keyspace = {'tid': 10 + t, 'pid': 100 * (t + 1), 'sid': 1000 * (t + 1)}
            prog = []
            for _ in range(rng.randrange(1, 4)):
                sc = H.scenario(rng, keyspace)
                c = rng.random()
                if c < 0.25 and len(sc) > 1:
                    sc = H.drop_prefix(sc, rng.randrange(1, len(sc)))
                elif c < 0.45 and len(sc) > 1:
                    sc = H.drop_one(sc, rng.randrange(len(sc)))
                elif c < 0.55:
                    sc = H.duplicate_one(sc, rng.randrange(len(sc)))
                elif c < 0.7 and len(sc) > 1:
                    inner = H.scenario(rng, keyspace)
                    sc = H.nest_into(sc, inner, rng.randrange(1, len(sc)))
                    res.count('nested_templates')
                prog += sc
            if rng.random() < 0.2:
                # the same END record without its START twice (a dump that begins inside two nested interrupts / calls):
                # once early, once after further complete sequences
                ends = [a for a in prog if a[1] == H.END]
                name_x = rng.choice(H.inventory()['decodable'])
                x = rng.choice(ends) if ends and rng.random() < 0.6 else \
                    (H.A(name_x, H.END, domain.gen_words(rng, name_x, 'E')) if name_x not in domain.TEXT_PAYLOAD else None)
                if x is not None:
                    i = rng.randrange(0, len(prog) + 1)
                    prog.insert(i, x)
                    prog.insert(rng.randrange(i + 1, len(prog) + 1), x)
                    prog.append(x)
                    res.count('programs_with_repeated_orphan_end')
            programs.append(prog)
        order = H.random_interleaving(rng, programs)
        items = [(10 + t, programs[t][i]) for t, i in order]
        events = H.materialize(items)
        check(res, events, f'scenario mix ({nthreads} threads)', via_file=(h % 4 == 0))
        res.count('scenario_mixes')


def targeted(res, ctx, rng):
    """Situation classes the statement names explicitly, produced by construction."""
    # a path syscall that fails before any lookup / with one lookup, for every path-taking decoder
    for name in H.ONE_PATH_CALLS + H.TWO_PATH_CALLS + H.NO_GUARD_CALLS:
        for n_lookups in (0, 1, 2, 3, 6):
            seq = H.path_syscall(rng, name, n_lookups, error=2, interleave_unrelated=False)
            check(res, H.materialize(H.on_thread(3, seq)), f'{name} with {n_lookups} lookups')
            res.count('path_syscall_lookup_counts')
    # name strings before any data record
    for code in ('TRACE_STRING_NEWTHREAD', 'TRACE_STRING_EXEC'):
        for q in (H.NONE, H.ALL):
            check(res, H.materialize(H.on_thread(3, [H.A(code, q, H.name32(b'launchd'))])), f'{code} before any data record')
            res.count('string_before_data')
    # string ids announced before the dump began
    for maker in (H.dlopen, H.map_image, H.dlopen_preflight, lambda s: H.dlsym(1, s)):
        for sid in (0, 5, 1 << 40):
            check(res, H.materialize(H.on_thread(3, maker(sid))), f'dyld consumer of unannounced string id {sid}')
            res.count('unannounced_string_ids')
    # page faults whose nested real-fault records are of every kind, in every order of two
    kinds = ('internal', 'external', 'shared', 'purgeable')
    for a in kinds:
        for b in kinds + (None,):
            nested = [H.real_fault(a, 0x1000, 3, 2, 44)] + ([H.real_fault(b, 0x2000, 1, 4, 45)] if b else [])
            for result in (0, 1):
                check(res, H.materialize(H.on_thread(3, H.page_fault(0x1000, 0, result, 2, nested))),
                      f'page fault with nested real-fault records {a},{b}')
                res.count('fault_nesting_orders')
    # ioctl request words over every length boundary
    for direction in (0x20000000, 0x40000000, 0x80000000, 0xc0000000, 0xe0000000):
        for length in (0, 1, 0xfff, 0x1000, 0x1001, 0x1fff):
            req = direction | (length << 16) | (ord('t') << 8) | 19
            check(res, H.materialize(H.on_thread(3, H.syscall('BSC_ioctl', (3, req, 0, 0), (0, 0, 0, 0)))),
                  f'ioctl request {hex(req)}')
            res.count('ioctl_words')


def long_calls(res, ctx, rng):
    """A call that stays open while its thread produces n further records (scale rungs around 2^16, see histories.py):
    the stream is processed to the end and the call's trace renders.  Histories this long are neither minimised nor
    stored event by event; the case names the generator's parameters."""
    inv = H.inventory()
    rungs = [n for i, n in enumerate(ctx.pick(H.SCALE_RUNGS_QUICK, H.SCALE_RUNGS_THOROUGH)) if ctx.mine(i)]
    for n in rungs:
        name = rng.choice(list(H.ONE_PATH_CALLS) + ['BSC_read', 'BSC_write', 'BSC_getpid'])
        if name in H.ONE_PATH_CALLS:
            seq = H.path_syscall(rng, name, 1, error=0, interleave_unrelated=False)
        else:
            seq = H.syscall(name, (3, 0x1000, 64, 0), (0, 64, 0, 0))
        # the window holds exactly n records, START and END included; the filler sits right before the END
        events, _ = H.stretched_events(seq, len(seq) - 1, n, rng, tid=3)
        if len(events) != n:
            raise core.Inconclusive('long call: wrong window size')
        n_traces, exc, stage = run_history(events)
        res.case(('long-call', name, n))
        res.count('events_fed', len(events))
        res.count('traces_rendered', n_traces)
        res.count('long_calls')
        if exc is not None:
            where = core.short_tb(exc, 2)
            res.violation(f'c07-{core.exc_name(exc)}-{where[-1] if where else "?"}',
                          f'{name} window of {n} same-thread records: {exc!r} in {stage} at {where}',
                          {'long_call': name, 'nested_records': n})
            return


def correlated_values(res, ctx, rng):
    """Every decoder once with its free argument and return words set to values that are LIVE KEYS of the stream at that
    point: the id of a mapped thread that has announced a name, that thread's pid, an announced string id, a looked-up
    vnode id.  A decoder that starts to act on such a coincidence (a return value that happens to be a known pid ...)
    still processes the stream to its end."""
    inv = H.inventory()
    b, pid, sid, vn = 0x7001, 0x4d2, 0x5151, 0x9a9a
    prefix = (H.on_thread(0x7000, H.newthread_pair(b, pid, b'childproc')) + H.on_thread(b, H.thread_name(b'worker-thread'))
              + H.on_thread(b, H.syscall('BSC_getpid', (0, 0, 0, 0), (0, pid, 0, 0)))
              + H.on_thread(0x7000, H.global_string(sid, b'/usr/lib/libz.dylib') + H.lookup(vn, b'/tmp/correlated')))
    for i, name in enumerate(inv['decodable']):
        if not ctx.mine(i) or name in domain.TEXT_PAYLOAD:
            continue
        spec = domain.TABLE.get(name, {})
        for val, what in ((pid, 'the pid of a named, mapped thread'), (b, 'the id of a named, mapped thread'),
                          (sid, 'an announced string id'), (vn, 'a looked-up vnode id')):
            for side in ('S', 'E'):
                start, end = domain.gen_words(rng, name, 'S'), domain.gen_words(rng, name, 'E')
                if name.startswith('BSC_'):
                    end[0] = 0
                words = start if side == 'S' else end
                for idx in range(4):
                    if name in ('BSC_setsockopt', 'BSC_getsockopt') and side == 'S' and idx == 2:
                        continue            # the option word is in-domain only together with the level word
                    if (side, idx) not in spec and not (side == 'E' and idx == 0 and name.startswith('BSC_')):
                        words[idx] = val
                seq = H.syscall(name, start, end)
                events = H.materialize(prefix + H.on_thread(0x7002, seq) + H.on_thread(b, H.syscall('BSC_getpid', (0, 0, 0, 0), (0, pid, 0, 0))))
                n_traces, exc, stage = run_history(events)
                res.count('events_fed', len(events))
                res.count('traces_rendered', n_traces)
                res.count('correlated_value_histories')
                res.case(('correlated', name, side, val))
                if exc is not None:
                    where = core.short_tb(exc, 2)
                    res.violation(f'c07-{core.exc_name(exc)}-{where[-1] if where else "?"}',
                                  f'{name} whose {"argument" if side == "S" else "return"} words are {what} ({hex(val)}): {exc!r} in '
                                  f'{stage} at {where}', {'events': [ev.ev_to_case(e) for e in events], 'via_file': False})
                    break
            else:
                continue
            break


def run(ctx):
    res = core.Result()
    import random
    H.set_clock(random.Random(ctx.seed * 7919 + ctx.shard))      # coarse time base: records may share a tick
    rng = ctx.rng
    with monitors.HandlerCoverage() as cov:
        per_decoder(res, ctx, rng)
        if ctx.shard == 0:
            targeted(res, ctx, rng)
        scenario_mixes(res, ctx, rng)
        long_calls(res, ctx, rng)
        correlated_values(res, ctx, rng)
    res.notes['handler_functions_entered'] = sorted(f'{f}:{n}' for f, n in cov.entered if n.startswith('handle_'))
    if ctx.shard == 0:
        seq = H.path_syscall(core.Ctx('C07', ctx.tier, ctx.seed).rng, 'BSC_rename', 1, error=2)
        res.sample({'history': [ev.ev_brief(e) for e in H.materialize(H.on_thread(3, seq))],
                    'class': 'two-path syscall with a single lookup'})
        res.sample({'history': [ev.ev_brief(e) for e in H.materialize(H.on_thread(3, H.dlopen(5)))],
                    'class': 'string id announced before the dump began'})
    res.assumptions += ['in-domain = vlib/domain.py table (enum-valued words within the values Darwin defines, ioctl '
                        'direction one of the five named, SOL_SOCKET => declared option, text fields valid UTF-8)']
    res.require('events_fed', 100)
    res.require('traces_rendered', 10)
    res.require('programs_with_repeated_orphan_end', 5)
    res.require('long_calls', 4)
    res.require('correlated_value_histories', 3000)
    return res


def finalize(res):
    inv = H.inventory()
    entered = {x.split(':', 1)[1] for x in res.notes.get('handler_functions_entered', [])}
    res.counters['handler_functions_entered'] = len(entered)
    res.counters['decodable_codes'] = len(inv['decodable'])
    if res.counters.get('decoders_driven', 0) < len(inv['decodable']):
        res.inconclusive.append(f'only {res.counters.get("decoders_driven", 0)} of {len(inv["decodable"])} decoders driven')
    res.notes['handler_functions_entered'] = f'{len(entered)} distinct handle_* functions (list omitted)'


def replay(case, ctx):
    res = core.Result()
    if 'long_call' in case:
        ctx.thorough = case['nested_records'] not in H.SCALE_RUNGS_QUICK
        for shard in range(ctx.nshards):
            ctx.shard = shard
            long_calls(res, ctx, ctx.rng)
        return res
    events = [ev.ev_from_case(c) for c in case['events']]
    check(res, events, 'replay', case.get('via_file', False))
    return res
