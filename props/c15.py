"""C15 - callstacks take the sampled frames and attribute each to the right image.

Monitor: histories of image announcements (stand-alone map records, launch windows with map and shared-cache
records, any order, duplicates, adjacent/equal addresses) interleaved with user-stack samples are run through the
real TracesParser + CallstacksParser and through PyKdebugParser.callstacks (twice on one object); a reference model
(linear scan over the images announced earlier in the stream, first identity kept) is run in lock-step; an
icontract class invariant checks the sorted parallel lists after every call; announcement order is permuted
(metamorphism).
"""
import io

from vlib import core, ev, wire, gen, histories as H, monitors

LEVEL = 'exploration'
RULE = ('histories = image announcements (stand-alone map records and launch windows with map/shared-cache records; any '
        'order, duplicated addresses, adjacent addresses) on one thread interleaved with samples on another (depth 0..40, '
        'header count below/equal/above the data supplied, frames at load address -1/0/+1, 0 and 2^64-1, samples with '
        'missing flag/header); non-trivial = history with >= 1 user-stack sample whose callstack was compared frame by '
        'frame; distinct = distinct event sequences')
QUICK_SHARDS = 4
THOROUGH_SHARDS = 16
USTACK = 0x8


class Inv:
    evaluations = 0
    failures = []


def lists_sorted_and_parallel(self):
    Inv.evaluations += 1
    a, u = self.dyld_addresses, self.dyld_uuids
    if len(a) != len(u):
        if len(Inv.failures) < 5:
            Inv.failures.append(f'{len(a)} addresses but {len(u)} identities')
    elif any(x >= y for x, y in zip(a, a[1:])):
        if len(Inv.failures) < 5:
            Inv.failures.append(f'addresses not strictly ascending: {[hex(x) for x in a[:8]]}')
    return True


_installed = False


def install_invariant():
    global _installed
    if _installed or not monitors.HAVE_ICONTRACT:
        return
    import icontract
    from pykdebugparser.callstacks_parser import CallstacksParser
    icontract.invariant(lists_sorted_and_parallel, error=AssertionError)(CallstacksParser)
    _installed = True


# ---------------------------------------------------------------------------------------------
# history generation: items carry their own tags so that the model never parses events
# ---------------------------------------------------------------------------------------------

def gen_history(rng, ctx):
    """Returns (merged [(tid, abstract event, tag)], samples list).  tag: ('map', addr, uuid) at a map record,
    ('launch_end', [(addr, uuid)...]) at a launch END, ('sample_start', k) / ('sample_end', k)."""
    addr_pool = [rng.getrandbits(44) | 0x1000 for _ in range(rng.randrange(1, 7))]
    addr_pool += [a + 1 for a in addr_pool[:2]] + [a - 1 for a in addr_pool[:1]]
    sc_pool = [rng.getrandbits(44) | (1 << 50) for _ in range(3)]     # shared-cache addresses: disjoint from the others
    uuid_pool = [rng.randbytes(16) for _ in range(3)]

    def pick_uuid():
        # the same image (uuid) may be mapped at several addresses (other processes, other slides)
        return rng.choice(uuid_pool) if rng.random() < 0.4 else rng.randbytes(16)
    ann = []      # announcer thread program: [(abstract, tag)]
    for _ in range(rng.randrange(0, 7)):
        if rng.random() < 0.6:
            a, u = rng.choice(addr_pool), pick_uuid()
            ann.append((H.uuid_record('DYLD_uuid_map_a', u, a), ('map', a, u)))
        else:
            nested, sc = [], []
            for _ in range(rng.randrange(0, 4)):
                if rng.random() < 0.6:
                    a, u = rng.choice(addr_pool), pick_uuid()
                    nested.append((H.uuid_record('DYLD_uuid_map_a', u, a), ('map', a, u)))
                else:
                    a, u = rng.choice(sc_pool), pick_uuid()
                    nested.append((H.uuid_record('DYLD_uuid_shared_cache_a', u, a), None))
                    sc.append((a, u))
            seq = H.launch(rng.getrandbits(40))
            ann.append((seq[0], None))
            ann += nested
            ann.append((seq[1], ('launch_end', sc)))
        if rng.random() < 0.3:
            ann += [(a, None) for a in H.unrelated(rng, 1) if not str(a[0]).startswith(('DYLD_', 'PERF_', 'DBG_DYLD'))]
        mapped = [t for _, t in ann if t and t[0] == 'map']
        if mapped and rng.random() < 0.35:
            # an UNMAP record that repeats the uuid and the address of an earlier announcement (dlclose, then another image
            # is mapped at that address): the property gives such records no part in the attribution - an address
            # announced twice keeps its first identity
            _, a, u = rng.choice(mapped)
            ann.append((H.uuid_record('DYLD_uuid_unmap_a', u, a), None))
            if rng.random() < 0.7:
                u2 = pick_uuid()
                ann.append((H.uuid_record('DYLD_uuid_map_a', u2, a), ('map', a, u2)))
    samples = []
    prev_frames = []
    smp = []      # sampler thread program
    big = rng.random() < 0.05
    if big:      # hundreds of images, very deep stacks
        addr_pool += [rng.getrandbits(44) | 0x1000 for _ in range(300)]
        for a in rng.sample(addr_pool, 200):
            ann.append((H.uuid_record('DYLD_uuid_map_a', rng.randbytes(16), a), ('map', a, None)))
        ann = [(x, (t[0], t[1], x[2][:16]) if t and t[0] == 'map' and t[2] is None else t) for x, t in ann]
    for k in range(rng.randrange(1, 5)):
        depth = rng.choice((0, 1, 3, 4, 5, 8, 13, 40)) if not big else rng.choice((128, 255, 256, 257, 600))
        frames = []
        for _ in range(depth):
            c = rng.random()
            base = rng.choice(addr_pool + sc_pool)
            frames.append(base if c < 0.2 else base - 1 if c < 0.35 else base + 1 if c < 0.5 else
                          base + rng.randrange(0, 1 << 20) if c < 0.8 else rng.choice((0, (1 << 64) - 1, rng.getrandbits(64))))
        if depth >= 8 and rng.random() < 0.25:
            frames = [frames[0]] * depth          # deep recursion: consecutive data records carry identical words
        if k and rng.random() < 0.3 and prev_frames:
            # a different stack that Python's hash() cannot tell from an earlier one: ints hash modulo 2^61 - 1, so words
            # that differ by a multiple of it (and -1 / -2 as 64-bit words do not, but 0 and 2^61 - 1 do) collide
            m = (1 << 61) - 1
            frames = [f + m * rng.choice((1, 2, 3)) if f + 3 * m < (1 << 64) else f - m for f in prev_frames]
            depth = len(frames)
        prev_frames = list(frames)
        n_records = (depth + 3) // 4 + rng.choice((0, 0, 1))
        nframes = rng.choice((depth, depth, max(0, depth - 1), depth + 2, 4 * n_records, 0, max(0, depth - 5), rng.randrange(depth + 1)))
        if rng.random() < 0.15:
            nframes = rng.choice(H.HEADER_COUNT_BOUNDARIES)
        what = USTACK | (rng.getrandbits(14) & ~USTACK) if rng.random() < 0.85 else rng.getrandbits(14) & ~USTACK
        has_hdr = rng.random() < 0.9
        nested = []
        if rng.random() < 0.5:
            # (which thread the sample says it walked - itself, another one - is not whose sample it is)
            nested.append(H.thd_data(rng.choice((77, 77, 78)), rng.choice((20, 20, 30, 0x999))))
        if has_hdr:
            nested.append(H.stk_uhdr(rng.randrange(512), nframes))
        data_words = frames + [rng.getrandbits(40) for _ in range(4 * n_records - len(frames))]
        for i in range(n_records):
            nested.append(H.stk_udata(data_words[4 * i:4 * i + 4]))
            if rng.random() < 0.2:
                nested += [a for a in H.unrelated(rng, 1) if not str(a[0]).startswith(('DYLD_', 'PERF_'))]
        if rng.random() < 0.4:
            nested = H.reposition(rng, nested)      # the header / thread-data record anywhere among the data records
        seq = H.sampler(what, k, nested)
        is_stack = bool(what & USTACK) and has_hdr
        samples.append({'frames': data_words[:nframes] if is_stack else None, 'is_stack': is_stack})
        smp.append((seq[0], ('sample_start', k)))
        smp += [(a, None) for a in seq[1:-1]]
        smp.append((seq[-1], ('sample_end', k)))
    order = H.random_interleaving(rng, [ann, smp])
    merged = []
    for t, i in order:
        prog = ann if t == 0 else smp
        merged.append((30 if t == 0 else 20, prog[i][0], prog[i][1]))
    return merged, samples


def attribute(frame, images):
    """images: list of (addr, uuid) in announcement order (first identity kept).  Greatest addr <= frame."""
    best = None
    for a, u in images:
        if a <= frame and (best is None or a > best[0]):
            best = (a, u)
    return best


def model(merged, samples):
    """For each stack sample: (index of START event, tid, [acceptable attributions per frame])."""
    images = []          # announced so far (first identity kept)

    def announce(a, u):
        if all(x != a for x, _ in images):
            images.append((a, u))
    out = {}
    at_start = {}
    for pos, (tid, _, tag) in enumerate(merged):
        if tag is None:
            continue
        if tag[0] == 'map':
            announce(tag[1], tag[2])
        elif tag[0] == 'launch_end':
            for a, u in tag[1]:
                announce(a, u)
        elif tag[0] == 'sample_start':
            at_start[tag[1]] = (pos, list(images))
        elif tag[0] == 'sample_end':
            k = tag[1]
            s = samples[k]
            if s['is_stack']:
                pos0, before = at_start[k]
                out[k] = {'start_pos': pos0, 'tid': tid,
                          'frames': [(f, {attribute(f, before), attribute(f, images)}) for f in s['frames']]}
    return out


def check_callstacks(res, got, merged, events, samples, label, case):
    exp = model(merged, samples)
    exp_list = [exp[k] for k in sorted(exp)]
    if len(got) != len(exp_list):
        res.violation('c15-callstack-count', f'{label}: {len(got)} callstacks for {len(exp_list)} user-stack samples '
                      f'({len(samples)} samples in the stream)', case)
        return False
    for cs, e in zip(got, exp_list):
        st = events[e['start_pos']]
        if cs.timestamp != st.timestamp or cs.tid != e['tid']:
            res.violation('c15-stamp', f'{label}: callstack stamped ({cs.timestamp}, tid {cs.tid}), the sample\'s START is '
                          f'({st.timestamp}, tid {e["tid"]})', case)
            return False
        if [f.address for f in cs.frames] != [f for f, _ in e['frames']]:
            res.violation('c15-frames', f'{label}: frames {[hex(f.address) for f in cs.frames][:6]} (n={len(cs.frames)}) vs the '
                          f'first N data words {[hex(f) for f, _ in e["frames"]][:6]} (N={len(e["frames"])})', case)
            return False
        for fr, (f, acceptable) in zip(cs.frames, e['frames']):
            got_attr = None if fr.uuid is None else (f - fr.offset if fr.offset is not None else None, fr.uuid.bytes)
            if got_attr not in acceptable:
                res.violation('c15-attribution', f'{label}: frame {hex(f)} attributed to {got_attr and (hex(got_attr[0]), got_attr[1].hex())}; '
                              f'acceptable: {[(a and (hex(a[0]), a[1].hex())) for a in acceptable]}', case)
                return False
            if fr.uuid is not None and (fr.offset is None or fr.offset < 0):
                res.violation('c15-negative-offset', f'{label}: frame {hex(f)} offset {fr.offset}', case)
                return False
            res.count('frames_compared')
    res.count('callstacks_compared', len(got))
    return True


def run_direct(events):
    from pykdebugparser.callstacks_parser import CallstacksParser
    tp = ev.new_parser()
    cp = CallstacksParser([], [])
    return list(cp.feed_generator(tp.feed_generator(iter(events)))), cp


def run_in_pieces(events, rng):
    """The same stream handed to ONE trace parser and ONE callstacks parser in several feed_generator() calls (a live
    capture decoded as it arrives: piece by piece, some pieces a single record, some empty)."""
    from pykdebugparser.callstacks_parser import CallstacksParser
    tp = ev.new_parser()
    cp = CallstacksParser([], [])
    cuts = sorted(rng.randrange(len(events) + 1) for _ in range(rng.choice((1, 2, 5, len(events) // 2 + 1))))
    out, prev = [], 0
    for k, c in enumerate(cuts + [len(events)]):
        if k and rng.random() < 0.3:
            # between two pieces both parsers are replaced by a checkpoint of themselves (a deep copy, or a pickle round
            # trip: equal ints / strings / lists come back as other objects)
            import copy
            import pickle
            tp, cp = copy.deepcopy((tp, cp)) if rng.random() < 0.5 else pickle.loads(pickle.dumps((tp, cp)))
        out += list(cp.feed_generator(tp.feed_generator(iter(events[prev:c]))))
        prev = c
    return out, len(cuts) + 1


def run_shared_lists(events, rng):
    """The image tables are the CALLER's lists: two CallstacksParser objects over the same two list objects take turns (one
    per piece of the stream), and now and then the owner replaces a parser by a new one over the same lists.  Together
    they must behave like one parser over those lists."""
    from pykdebugparser.callstacks_parser import CallstacksParser
    addresses, uuids = [], []
    tp = ev.new_parser()
    parsers = [CallstacksParser(addresses, uuids), CallstacksParser(addresses, uuids)]
    cuts = sorted(rng.randrange(len(events) + 1) for _ in range(rng.choice((1, 2, 4))))
    out, prev = [], 0
    for k, c in enumerate(cuts + [len(events)]):
        if rng.random() < 0.3:
            parsers[k % 2] = CallstacksParser(addresses, uuids)
        out += list(parsers[k % 2].feed_generator(tp.feed_generator(iter(events[prev:c]))))
        prev = c
    return out


def one_history(res, rng, ctx):
    from pykdebugparser.pykdebugparser import PyKdebugParser
    merged, samples = gen_history(rng, ctx)
    events = H.materialize([(tid, a) for tid, a, _ in merged])
    case = {'events': [ev.ev_to_case(e) for e in events]}
    res.case(tuple((e.tid, e.debugid, e.data) for e in events), nontrivial=any(s['is_stack'] for s in samples))
    res.count('histories')
    try:
        got, cp = run_direct(events)
    except Exception as x:
        res.violation(f'c15-raises-{core.exc_name(x)}', f'{x!r} at {core.short_tb(x)}', case)
        return
    if not check_callstacks(res, got, merged, events, samples, 'parsers driven directly', case):
        return
    if any(not s['is_stack'] for s in samples):
        res.count('histories_with_non_stack_samples')
    try:
        got_p, n_pieces = run_in_pieces(events, rng)
    except Exception as x:
        res.violation(f'c15-raises-{core.exc_name(x)}', f'stream fed in pieces: {x!r} at {core.short_tb(x)}', case)
        return
    if not check_callstacks(res, got_p, merged, events, samples, f'one pair of parser objects fed the stream in {n_pieces} '
                            'feed_generator() calls', case):
        return
    res.count('histories_fed_in_pieces')
    try:
        got_s = run_shared_lists(events, rng)
    except Exception as x:
        res.violation(f'c15-raises-{core.exc_name(x)}', f'parsers sharing the caller\'s image lists: {x!r} at {core.short_tb(x)}', case)
        return
    if not check_callstacks(res, got_s, merged, events, samples, 'several CallstacksParser objects over the same two list '
                            'objects taking turns', case):
        return
    res.count('histories_on_shared_image_lists')
    # through the front-end, twice on one parser object
    data = wire.v2_file(gen.threadmap_for(events), 8, gen.events_to_records(events))
    p = PyKdebugParser()
    same_stream = io.BytesIO(data)          # the very same stream object, rewound, for the second request
    for rnd in (1, 2, 3):
        try:
            same_stream.seek(0)
            got2 = list(p.callstacks(same_stream if rnd < 3 else wire.stream(data)))
        except Exception as x:
            res.violation(f'c15-front-raises-{core.exc_name(x)}', f'{x!r}', case)
            return
        if not check_callstacks(res, got2, merged, events, samples, f'PyKdebugParser.callstacks, request {rnd} on one object',
                                case):
            return
        res.count('front_end_runs')
    # the same capture under a supplied code table that lists names under several ids (ev.relabel): the parts of one
    # sample use different ids of one name - through the front end and through the parsers driven directly
    if rng.random() < 0.5:
        events3, table3 = ev.relabel(events, rng)
        data3 = wire.v2_file(gen.threadmap_for(events3), 8, gen.events_to_records(events3))
        case3 = dict(case, relabelled={'events': [ev.ev_to_case(e) for e in events3],
                                       'table': {hex(k): v for k, v in table3.items() if k >= 0x60000000}})
        try:
            got3 = list(PyKdebugParser().callstacks(io.BytesIO(data3), table3))
        except Exception as x:
            res.violation(f'c15-supplied-table-raises-{core.exc_name(x)}', f'{x!r}', case3)
            return
        if not check_callstacks(res, got3, merged, events3, samples, 'supplied table listing names under several ids, the '
                                'records use any of them', case3):
            return
        res.count('histories_under_a_table_with_names_under_several_ids')
    # permutation metamorphism: distinct-address announcements that precede every sample may come in any order
    maps = [(i, m) for i, m in enumerate(merged) if m[2] and m[2][0] == 'map']
    first_sample = next((i for i, m in enumerate(merged) if m[2] and m[2][0] == 'sample_start'), len(merged))
    pre = [(i, m) for i, m in maps if i < first_sample]
    in_launch = any(m[2] and m[2][0] == 'launch_end' for m in merged)
    if len(pre) >= 2 and len({m[2][1] for _, m in pre}) == len(pre) and not in_launch:
        perm = list(pre)
        rng.shuffle(perm)
        merged2 = list(merged)
        for (i, _), (_, m) in zip(pre, perm):
            merged2[i] = m
        events2 = H.materialize([(tid, a) for tid, a, _ in merged2])
        try:
            got3, _ = run_direct(events2)
        except Exception as x:
            res.violation(f'c15-raises-{core.exc_name(x)}', f'{x!r}', case)
            return
        a = [[(f.address, f.uuid, f.offset) for f in cs.frames] for cs in got]
        b = [[(f.address, f.uuid, f.offset) for f in cs.frames] for cs in got3]
        res.count('permutations_compared')
        if a != b:
            res.violation('c15-announcement-order', 'attribution depends on the order in which distinct images were '
                          'announced', case)


def concurrent_front_ends(res, rng, ctx):
    """Two front-end objects, each on its own dump, their callstack streams requested up front and advanced
    alternately: every object attributes frames with the images of the dump IT reads."""
    import itertools
    from pykdebugparser.pykdebugparser import PyKdebugParser
    hist = []
    for _ in range(2):
        merged, samples = gen_history(rng, ctx)
        events = H.materialize([(tid, a) for tid, a, _ in merged])
        hist.append((merged, samples, events, wire.v2_file(gen.threadmap_for(events), 8, gen.events_to_records(events))))
    case = {'files': [h[3] for h in hist]}
    parsers = [PyKdebugParser(), PyKdebugParser()]
    got = [[], []]
    try:
        gens = [p.callstacks(io.BytesIO(h[3])) for p, h in zip(parsers, hist)]
        if rng.random() < 0.5:
            for row in itertools.zip_longest(*gens):
                for i, c in enumerate(row):
                    if c is not None:
                        got[i].append(c)
        else:
            got = [list(g) for g in gens]       # requested up front, consumed one after the other
    except Exception as x:
        res.violation(f'c15-front-raises-{core.exc_name(x)}', f'two front-end objects at the same time: {x!r}', case)
        return
    for i, (merged, samples, events, _) in enumerate(hist):
        if not check_callstacks(res, got[i], merged, events, samples, f'two PyKdebugParser objects with overlapping callstack '
                                f'streams, object {i}', case):
            return
    res.count('concurrent_front_end_pairs')


def run(ctx):
    install_invariant()
    res = core.Result()
    import random
    H.set_spare(random.Random(ctx.seed * 104729 + ctx.shard))     # words the property gives no meaning to are not zeros
    H.set_clock(random.Random(ctx.seed * 7919 + ctx.shard))      # coarse time base: records may share a tick
    rng = ctx.rng
    for i in range(ctx.pick(300, 25000)):
        one_history(res, rng, ctx)
        if i % 6 == 0:
            concurrent_front_ends(res, rng, ctx)
    res.count('invariant_evaluations', Inv.evaluations)
    for f in Inv.failures:
        res.violation('c15-list-invariant', f'class invariant on CallstacksParser: {f}')
    if ctx.shard == 0:
        r = core.Ctx('C15', ctx.tier, ctx.seed).rng
        merged, samples = gen_history(r, ctx)
        res.sample({'stream': [f'tid{tid}:{a[0]}:{a[1]}' + (f' <{tag[0]}>' if tag else '') for tid, a, tag in merged][:25],
                    'samples': [{'is_stack': s['is_stack'], 'depth': None if s['frames'] is None else len(s['frames'])}
                                for s in samples]})
    res.assumptions += ['images announced while a sample window is open (or shared-cache images of a launch window that is '
                        'still open) may or may not be used for that sample: both attributions are accepted',
                        'shared-cache load addresses are disjoint from map addresses (no cross-kind ties)',
                        'stand-alone shared-cache records outside launch windows are not generated']
    res.require('callstacks_compared', 50)
    res.require('frames_compared', 200)
    res.require('permutations_compared', 3)
    res.require('histories_with_non_stack_samples', 1)
    res.require('front_end_runs', 10)
    res.require('histories_fed_in_pieces', 50)
    res.require('histories_under_a_table_with_names_under_several_ids', 20)
    res.require('concurrent_front_end_pairs', 5)
    if monitors.HAVE_ICONTRACT:
        res.require('invariant_evaluations', 1)
    return res


def replay(case, ctx):
    install_invariant()
    res = core.Result()
    events = [ev.ev_from_case(c) for c in case['events']]
    try:
        got, cp = run_direct(events)
        for cs in got:
            print('  callstack', cs.timestamp, cs.tid, [(hex(f.address), str(f.uuid)[:8] if f.uuid else None, f.offset) for f in cs.frames][:8])
    except Exception as x:
        res.violation(f'c15-raises-{core.exc_name(x)}', repr(x), case)
    for f in Inv.failures:
        res.violation('c15-list-invariant', f)
    return res
