"""C19 - code-table text maps every 'hex-id name' line; a supplied table is honoured.

Monitor: (1) generated table texts go through the real from_trace_codes_text and are compared with an own reference
parse; (2) generated dumps are listed and decoded by the real front-end under (a) the bundled table, (b) a table with
ids removed, (c) an injective re-assignment of ids to names with the events' ids re-mapped accordingly; listings must
show `name (hex)` exactly for ids of the supplied table, removed ids must never yield a trace, and (c) must render the
same trace texts as (a).
"""
import io
import itertools
import re

from vlib import core, ev, wire, gen, histories as H

LEVEL = 'exploration'
RULE = ('table texts = lines "hex-id name [comment]" with ids <= 32 bits (with/without 0x/0X, either case, leading zeros), '
        'whitespace-free names (ASCII and non-ASCII), duplicates, tab/space separators, trailing comments of printable '
        'characters, LF and CRLF line ends; dumps = scenario content decoded under bundled / reduced / re-assigned '
        'tables; non-trivial = table or dump whose result was compared with the reference; distinct = distinct texts / '
        '(dump, table) pairs')
QUICK_SHARDS = 4
THOROUGH_SHARDS = 16
REAL_FAULT_IDS = set(range(0x1320008, 0x1320018, 4))
NAME_CHARS = 'abcdefghijklmnopqrstuvwxyzABCDEFGHIJKLMNOPQRSTUVWXYZ0123456789_-.:/#()[]é日'


def gen_table_text(rng):
    n = rng.choice((0, 1, 2, 5, 20, 100))
    lines, model, done = [], {}, []
    ids = [rng.getrandbits(rng.choice((8, 16, 24, 32))) for _ in range(max(1, n // 2 + 1))]
    for _ in range(n):
        i = rng.choice(ids) if rng.random() < 0.4 else rng.getrandbits(32)
        digits = format(i, 'x')
        if rng.random() < 0.3:
            digits = digits.upper()
        if rng.random() < 0.2:
            digits = '0' * rng.randrange(1, 4) + digits
        prefix = rng.choice(('0x', '0x', '0X', ''))
        name = ''.join(rng.choice(NAME_CHARS) for _ in range(rng.randrange(1, 30)))
        sep = rng.choice(('\t', ' ', '  ', '\t\t', ' \t '))
        line = rng.choice(('', '', ' ', '\t')) + prefix + digits + sep + name
        if rng.random() < 0.4:
            comment = ''.join(rng.choice(NAME_CHARS + ' \t#:') for _ in range(rng.randrange(0, 40)))
            line += rng.choice(('\t', ' ', '\t\t')) + '#' + comment
        if rng.random() < 0.2:
            line += rng.choice((' ', '\t', '   '))
        lines.append(line)
        model[i] = name
        done.append((line, i, name))
        if len(done) > 1 and rng.random() < 0.25:
            # a line repeated VERBATIM later in the text (a table pasted together from overlapping pieces, a section stored
            # more than once): it is one more occurrence of its id, and the last occurrence wins - also when another name
            # was given to that id in between
            line2, i2, name2 = rng.choice(done[:-1])
            lines.append(line2)
            model[i2] = name2
            done.append((line2, i2, name2))
    eol = rng.choice(('\n', '\n', '\r\n'))
    text = eol.join(lines) + (eol if lines and rng.random() < 0.7 else '')
    return text, model


def aligned_big_table(rng, shift):
    """~300 KB of 'hex-id name [comment]' lines; for every power of two T in 4 KiB..256 KiB one line is padded with a
    trailing comment so that it ends (newline included) exactly at offset T + shift."""
    targets = [1 << k for k in range(12, 19)]
    parts, model, length, i = [], {}, 0, 0
    while targets or i < 100:
        if not targets:
            i += 1
        ident = 0x2f000000 + 4 * len(model)
        name = 'NAME_%d_%s' % (len(model), ''.join(rng.choice('abcdefXYZ') for _ in range(rng.randrange(1, 12))))
        line = f'{ident:#x}\t{name}'
        if targets and length + 2 * (len(line) + 1) + 4 > targets[0] + shift:
            pad = targets[0] + shift - length - len(line) - 1
            if pad >= 2:
                line += '\t#' + 'c' * (pad - 2)
            elif pad == 1:
                line += ' '
            targets.pop(0)
        parts.append(line + '\n')
        length += len(line) + 1
        model[ident] = name
    return ''.join(parts), model


def table_texts(res, ctx, rng):
    from pykdebugparser.trace_codes import from_trace_codes_text
    for it in range(ctx.pick(400, 60000)):
        text, model = gen_table_text(rng)
        res.case(text)
        try:
            # (every fifth call by the documented parameter name)
            got = from_trace_codes_text(codes_text=text) if it % 5 == 4 else from_trace_codes_text(text)
        except Exception as x:
            res.violation(f'c19-text-raises-{core.exc_name(x)}', f'{x!r} on a table of {len(model)} entries', {'text': text})
            continue
        if dict(got) != model:
            diff = [(hex(k), got.get(k), model.get(k)) for k in set(got) | set(model) if got.get(k) != model.get(k)][:4]
            res.violation('c19-text-mapping', f'mapping differs from the reference on {diff}', {'text': text})
            continue
        if dict(got) != ev.parse_codes_text(text):
            res.violation('c19-reference-self-check', 'generator model and reference parser disagree', {'text': text})
        res.count('table_texts_compared')
        res.count('table_entries_compared', len(model))
        if it % 7 == 0:
            # the same text through the file entry point (written byte for byte: with / without a final line terminator)
            import os
            import tempfile
            from pykdebugparser.trace_codes import from_trace_codes_file
            fd, path = tempfile.mkstemp(prefix='verif-c19-', suffix='.codes')
            try:
                with os.fdopen(fd, 'w', newline='', encoding='utf-8') as f:
                    f.write(text)
                try:
                    got_f = dict(from_trace_codes_file(path))
                except Exception as x:
                    res.violation(f'c19-file-raises-{core.exc_name(x)}', f'from_trace_codes_file: {x!r} on a table of '
                                  f'{len(model)} entries', {'text': text})
                    continue
            finally:
                os.unlink(path)
            res.count('table_files_compared')
            if not text.endswith(('\n', '\r')):
                res.count('table_files_without_final_line_terminator')
            if got_f != model:
                diff = [(hex(k), got_f.get(k), model.get(k)) for k in set(got_f) | set(model) if got_f.get(k) != model.get(k)][:4]
                res.violation('c19-file-mapping', f'the same text read through from_trace_codes_file maps differently: {diff} '
                              f'(text ends with {text[-3:]!r})', {'text': text})
                continue
    # scale ladder: tables larger than any block a reader may use, with line ends placed exactly on / next to the
    # powers of two from 4 KiB to 256 KiB (all in one table), through the text and the file entry points
    if ctx.shard == 0:
        import os
        import tempfile
        from pykdebugparser.trace_codes import from_trace_codes_file
        for shift in (0, 1, -1) + ((2, -2, 7) if ctx.thorough else ()):
            text, model = aligned_big_table(rng, shift)
            res.case(text)
            fd, path = tempfile.mkstemp(prefix='verif-c19-', suffix='.codes')
            try:
                with os.fdopen(fd, 'w', newline='') as f:
                    f.write(text)
                for how, load in (('text', lambda: from_trace_codes_text(text)), ('file', lambda: from_trace_codes_file(path))):
                    try:
                        got = dict(load())
                    except Exception as x:
                        res.violation(f'c19-text-raises-{core.exc_name(x)}', f'{x!r} on a table of {len(text)} characters '
                                      f'({how})', {'text': text})
                        continue
                    if got != model:
                        diff = [(hex(k), got.get(k), model.get(k)) for k in set(got) | set(model) if got.get(k) != model.get(k)][:4]
                        res.violation('c19-text-mapping', f'table of {len(text)} characters / {len(model)} entries read as '
                                      f'{how}: mapping differs from the reference on {diff}', {'text': text})
                        continue
                    res.count('large_aligned_tables_compared')
            finally:
                os.unlink(path)
    # the bundled file through both parsers
    import os
    with open(os.path.join(core.REPO, 'pykdebugparser', 'trace.codes')) as fd:
        text = fd.read()
    if dict(from_trace_codes_text(text)) != ev.parse_codes_text(text):
        res.violation('c19-bundled-table', 'the bundled table parses differently from the reference parse', {})
    from pykdebugparser.trace_codes import default_trace_codes
    if dict(default_trace_codes()) != ev.parse_codes_text(text):
        res.violation('c19-default-table', 'default_trace_codes() differs from the reference parse of trace.codes', {})
    res.count('bundled_table_entries', len(ev.parse_codes_text(text)))


NAME_COL = re.compile(r'^(.{58})')


def listing_names(lines):
    # only the name column is enabled, so a line is the (padded, never truncated) name
    return [l.rstrip() for l in lines]


KEYWORD_TURN = [0]


def front(data, table, what):
    from pykdebugparser.pykdebugparser import PyKdebugParser
    p = PyKdebugParser()
    p.color = False
    p.show_timestamp = False
    p.show_process = False
    KEYWORD_TURN[0] += 1
    by_name = KEYWORD_TURN[0] % 3 == 0          # every third request names its arguments (kdebug=, trace_codes=)
    if what == 'kevents':
        p.show_func_qual = False
        p.show_args = False
        return list(p.formatted_kevents(kdebug=io.BytesIO(data), trace_codes=table) if by_name else
                    p.formatted_kevents(io.BytesIO(data), table))
    if what == 'traces':
        return [(t.ktraces[0].eventid, str(t)) for t in (p.traces(kdebug=io.BytesIO(data), trace_codes=table) if by_name else
                                                          p.traces(io.BytesIO(data), table))]
    if what == 'callstacks':
        return [(c.tid, [(f.address, f.offset) for f in c.frames]) for c in p.callstacks(io.BytesIO(data), table)]
    p.show_tid = False
    if what == 'formatted_traces':
        return list(p.formatted_traces(io.BytesIO(data), table))
    if what == 'formatted_callstacks':
        return list(p.formatted_callstacks(io.BytesIO(data), table))


def entry_points_agree(res, data, table, label, case):
    """Every public method that takes a table honours it: the formatted listings are the renderings of what the raw
    methods return under the same table."""
    try:
        trs = front(data, table, 'traces')
        ftr = front(data, table, 'formatted_traces')
        cs = front(data, table, 'callstacks')
        fcs = front(data, table, 'formatted_callstacks')
    except Exception as x:
        res.violation(f'c19-entry-point-raises-{core.exc_name(x)}', f'{label}: {x!r}', case)
        return False
    res.count('entry_point_comparisons')
    res.count('callstacks_seen_under_supplied_tables', len(cs))
    if ftr != [t[1] for t in trs]:
        k = next((i for i, (a, b) in enumerate(zip(ftr, trs)) if a != b[1]), min(len(ftr), len(trs)))
        res.violation('c19-formatted-traces-ignore-the-table', f'{label}: formatted_traces gives {len(ftr)} lines, traces '
                      f'{len(trs)} under the same supplied table; first difference at {k}: '
                      f'{ftr[k] if k < len(ftr) else None!r} vs {trs[k][1] if k < len(trs) else None!r}', case)
        return False
    if len(fcs) != len(cs) or any(l.count('\n') != len(c[1]) for l, c in zip(fcs, cs)):
        res.violation('c19-formatted-callstacks-ignore-the-table', f'{label}: formatted_callstacks gives {len(fcs)} stacks, '
                      f'callstacks {len(cs)} under the same supplied table', case)
        return False
    return True


def dumps(res, ctx, rng):
    bundled = dict(ev.bundled_codes())
    for _ in range(ctx.pick(30, 3000)):
        evs = gen.gen_scenario_events(rng, n_scenarios=rng.choice((4, 8)))
        data = wire.v2_file(gen.threadmap_for(evs), 8, gen.events_to_records(evs))
        used = sorted({e.eventid for e in evs})
        case = {'file': data}
        try:
            base_list = front(data, bundled, 'kevents')
            base_traces = front(data, bundled, 'traces')
            default_traces = front(data, None, 'traces')
        except Exception as x:
            res.violation(f'c19-front-raises-{core.exc_name(x)}', f'{x!r}', case)
            continue
        res.case(data)
        if default_traces != base_traces:
            res.violation('c19-explicit-bundled-table', 'passing the bundled table explicitly changes the traces', case)
            continue
        # (a) listing under the bundled table
        for e, shown in zip(evs, listing_names(base_list)):
            want = f'{bundled[e.eventid]} ({hex(e.eventid)})' if e.eventid in bundled else hex(e.eventid)
            if shown != want:
                res.violation('c19-listing', f'event {hex(e.eventid)} listed as {shown!r}, expected {want!r}', case)
                break
        # (b) remove some ids
        removed = set(rng.sample(used, max(1, len(used) // 3)))
        reduced = {k: v for k, v in bundled.items() if k not in removed}
        try:
            lst = front(data, reduced, 'kevents')
            trs = front(data, reduced, 'traces')
        except Exception as x:
            res.violation(f'c19-reduced-raises-{core.exc_name(x)}', f'{x!r}', dict(case, removed=sorted(removed)))
            continue
        bad = False
        for e, shown in zip(evs, listing_names(lst)):
            want = f'{reduced[e.eventid]} ({hex(e.eventid)})' if e.eventid in reduced else hex(e.eventid)
            if shown != want:
                res.violation('c19-listing-supplied-table', f'with id {hex(e.eventid)} {"removed from" if e.eventid in removed else "in"} '
                              f'the supplied table the listing shows {shown!r}, expected {want!r}', dict(case, removed=sorted(removed)))
                bad = True
                break
        if bad:
            continue
        leaked = [t for t in trs if t[0] in removed]
        if leaked:
            res.violation('c19-removed-id-decoded', f'id {hex(leaked[0][0])} is absent from the supplied table but was decoded: '
                          f'{leaked[0][1]!r}', dict(case, removed=sorted(removed)))
            continue
        if not entry_points_agree(res, data, reduced, f'{len(removed)} ids removed', dict(case, removed=sorted(removed))):
            continue
        res.count('reduced_tables_checked')
        # the supplied table in every kind of mapping object a caller may hold it in (the API asks for a Mapping): a
        # read-only view, a chain of an override over a base, a UserDict, a Mapping implemented from scratch, dict
        # subclasses - the listing and the traces are those of the plain dict with the same items
        import collections
        import types

        class FromScratch(collections.abc.Mapping):
            def __init__(self, d):
                self._d = dict(d)

            def __getitem__(self, k):
                return self._d[k]

            def __iter__(self):
                return iter(self._d)

            def __len__(self):
                return len(self._d)
        half = dict(list(reduced.items())[:len(reduced) // 2])
        rest = {k: v for k, v in reduced.items() if k not in half}
        containers = {'MappingProxyType': types.MappingProxyType(dict(reduced)), 'ChainMap': collections.ChainMap(half, rest),
                      'UserDict': collections.UserDict(reduced), 'Mapping implemented from scratch': FromScratch(reduced),
                      'OrderedDict': collections.OrderedDict(reduced), 'defaultdict': collections.defaultdict(str, reduced)}
        kind = rng.choice(sorted(containers))
        try:
            lst_c = front(data, containers[kind], 'kevents')
            trs_c = front(data, containers[kind], 'traces')
        except Exception as x:
            res.violation(f'c19-mapping-kind-raises-{core.exc_name(x)}', f'supplied table held in a {kind}: {x!r}',
                          dict(case, removed=sorted(removed)))
            continue
        if lst_c != lst or trs_c != trs:
            res.violation('c19-supplied-table-ignored-for-some-mapping-kinds', f'supplied table held in a {kind}: the listing '
                          f'{"differs" if lst_c != lst else "equals"} and the traces {"differ" if trs_c != trs else "equal"} '
                          f'those under a plain dict with the same items ({len(trs_c)} vs {len(trs)} traces)',
                          dict(case, removed=sorted(removed)))
            continue
        res.count('mapping_kinds_checked')
        # a supplied table that also holds ids with qualifier bits set (legal table text): events are looked up by their
        # event id (qualifier bits cleared), never by the full debug id
        odd = dict(reduced)
        for e in evs[:40]:
            odd[e.eventid | rng.randrange(1, 4)] = 'ODD_' + format(e.eventid, 'x')
        try:
            lst = front(data, odd, 'kevents')
            trs_odd = front(data, odd, 'traces')
        except Exception as x:
            res.violation(f'c19-odd-ids-raises-{core.exc_name(x)}', f'{x!r}', case)
            continue
        bad = False
        for e, shown in zip(evs, listing_names(lst)):
            want = f'{odd[e.eventid]} ({hex(e.eventid)})' if e.eventid in odd else hex(e.eventid)
            if shown != want:
                res.violation('c19-listing-keyed-by-full-debugid', f'table holds ids with qualifier bits set; event '
                              f'{hex(e.debugid)} listed as {shown!r}, expected {want!r} (lookup by event id)', case)
                bad = True
                break
        if bad:
            continue
        if trs_odd != trs:
            res.violation('c19-odd-ids-change-decoding', 'entries with qualifier bits set changed which traces are decoded', case)
            continue
        res.count('tables_with_qualifier_bit_ids_checked')
        # the caller's table object edited in place between requests: each request honours the table as it is then
        t = dict(bundled)
        try:
            a = front(data, t, 'traces')
            for k in removed:
                t.pop(k, None)
            b = front(data, t, 'traces')
            for k in removed:
                if k in bundled:
                    t[k] = bundled[k]
            c = front(data, t, 'traces')
        except Exception as x:
            res.violation(f'c19-edited-table-raises-{core.exc_name(x)}', f'{x!r}', dict(case, removed=sorted(removed)))
            continue
        if a != base_traces or b != trs or c != base_traces:
            res.violation('c19-edited-table-not-honoured', f'one table object edited in place between requests: request with '
                          f'{len(removed)} ids removed gives {len(b)} traces (a fresh table gives {len(trs)}), request after '
                          f'restoring them gives {len(c)} (bundled: {len(base_traces)})', dict(case, removed=sorted(removed)))
            continue
        res.count('in_place_edits_checked')
        # ONE front-end object asked with different tables in turn (default, supplied, default again): each request
        # uses the table it was given, nothing learned under another table carries over
        from pykdebugparser.pykdebugparser import PyKdebugParser
        one = PyKdebugParser()
        one.color = False
        bad = False
        for step, (tbl, want_t) in enumerate(((reduced, trs), (None, base_traces), (odd, trs_odd), (bundled, base_traces),
                                              (reduced, trs))):
            try:
                got_t = [(t.ktraces[0].eventid, str(t)) for t in one.traces(io.BytesIO(data), tbl)]
            except Exception as x:
                res.violation(f'c19-one-object-raises-{core.exc_name(x)}', f'{x!r}', dict(case, removed=sorted(removed)))
                bad = True
                break
            if got_t != want_t:
                res.violation('c19-table-of-an-earlier-request-used', f'one front-end object, request {step + 1} with '
                              f'{"the default table" if tbl is None else "a supplied table of %d entries" % len(tbl)}: '
                              f'{len(got_t)} traces, a fresh object gives {len(want_t)} under that table',
                              dict(case, removed=sorted(removed)))
                bad = True
                break
        if bad:
            continue
        res.count('one_object_table_sequences')
        # ... and the same requests made FIRST and consumed AFTERWARDS (the results are lazy): listings and traces asked
        # of one object with different tables, all of them pending at once, read in another order than they were asked
        # in or in turns - each is still that of the table it was asked with
        one = PyKdebugParser()
        one.color = False
        one.show_timestamp = one.show_process = one.show_func_qual = one.show_args = False
        one.show_tid = False
        requests = []
        try:
            want_lists = {id(t_): listing_names(front(data, t_, 'kevents')) for t_ in (reduced, odd, bundled)}
            for tbl, want_t in ((reduced, trs), (None, base_traces), (odd, trs_odd), (bundled, base_traces)):
                requests.append((tbl, 'traces', want_t, one.traces(io.BytesIO(data), tbl)))
                if tbl is not None:
                    requests.append((tbl, 'listing', want_lists[id(tbl)], one.formatted_kevents(io.BytesIO(data), tbl)))
                requests.append((tbl, 'formatted traces', [x[1] for x in want_t], one.formatted_traces(io.BytesIO(data), tbl)))
            rng.shuffle(requests) if rng.random() < 0.5 else requests.reverse()
            got_r = [[] for _ in requests]
            if rng.random() < 0.5:
                for i, (_, _, _, it) in enumerate(requests):
                    got_r[i] = list(it)
            else:
                for row in itertools.zip_longest(*[r[3] for r in requests]):
                    for i, x in enumerate(row):
                        if x is not None:
                            got_r[i].append(x)
        except Exception as x:
            res.violation(f'c19-pending-requests-raise-{core.exc_name(x)}', f'{x!r}', dict(case, removed=sorted(removed)))
            continue
        bad = False
        for (tbl, what, want_r, _), g in zip(requests, got_r):
            # (the object's thread and process tables are shared by its pending requests by design, so texts that show a
            # pid learned from the records are not compared here: which ids are decoded, into what, and every listing line)
            if what == 'traces':
                g, want_r = [t.ktraces[0].eventid for t in g], [i_ for i_, _ in want_r]
            elif what == 'listing':
                g = listing_names(g)
            else:
                g, want_r = [len(g)], [len(want_r)]
            if g != want_r:
                k = next((i for i, (a, b) in enumerate(zip(g, want_r)) if a != b), min(len(g), len(want_r)))
                res.violation('c19-table-of-another-pending-request-used', f'one front-end object, {len(requests)} requests made '
                              f'with different tables before any was read: the {what} asked with '
                              f'{"the default table" if tbl is None else "a supplied table of %d entries" % len(tbl)} '
                              f'differ(s) at {k}: {g[k] if k < len(g) else None!r}, a fresh object gives '
                              f'{want_r[k] if k < len(want_r) else None!r}', dict(case, removed=sorted(removed)))
                bad = True
                break
        if bad:
            continue
        res.count('pending_requests_with_different_tables', len(requests))
        # (c) injective re-assignment of ids (real-fault ids are hard-coded in the page-fault decoder: left alone)
        movable = [i for i in used if i not in REAL_FAULT_IDS]
        free = [i for i in range(0x50000000, 0x50000000 + 4 * len(movable) * 3, 4) if i not in bundled]
        targets = rng.sample(free, len(movable))
        pi = dict(zip(movable, targets))
        table2 = {k: v for k, v in bundled.items() if k not in pi}
        for old, new in pi.items():
            if old in bundled:
                table2[new] = bundled[old]
        evs2 = [ev.mk(e.timestamp, pi.get(e.eventid, e.eventid), e.func_qualifier, e.data, e.tid) for e in evs]
        data2 = wire.v2_file(gen.threadmap_for(evs2), 8, gen.events_to_records(evs2))
        try:
            trs2 = front(data2, table2, 'traces')
            cs1 = front(data, bundled, 'callstacks')
            cs2 = front(data2, table2, 'callstacks')
        except Exception as x:
            res.violation(f'c19-reassigned-raises-{core.exc_name(x)}', f'{x!r}', case)
            continue
        if [t[1] for t in trs2] != [t[1] for t in base_traces]:
            k = next((i for i, (a, b) in enumerate(zip(trs2, base_traces)) if a[1] != b[1]), min(len(trs2), len(base_traces)))
            res.violation('c19-reassigned-ids', f'under a re-assigned table trace {k} reads '
                          f'{trs2[k][1] if k < len(trs2) else None!r}, under the bundled table '
                          f'{base_traces[k][1] if k < len(base_traces) else None!r} ({len(trs2)} vs {len(base_traces)} traces)',
                          dict(case, file2=data2, mapping={hex(a): hex(b) for a, b in pi.items()}))
            continue
        if cs1 != cs2:
            res.violation('c19-reassigned-ids-callstacks', 'callstacks differ under a re-assigned table', case)
            continue
        if not entry_points_agree(res, data2, table2, 're-assigned ids', dict(case, file2=data2)):
            continue
        res.count('reassigned_tables_checked')
        res.count('traces_compared_under_reassignment', len(base_traces))
        # (d) one name under SEVERAL ids (the bundled table itself lists names twice): every movable id gets one to three
        # ids, listed in the table in random order next to the original, and every record picks one of them on its own -
        # so the records of one window (a sample and its parts, a call and its lookups) use different ids of one name
        fan = {}
        free3 = [i for i in range(0x60000000, 0x60000000 + 4 * len(movable) * 8, 4) if i not in bundled]
        rng.shuffle(free3)
        for old_id in movable:
            fan[old_id] = [free3.pop() for _ in range(rng.choice((1, 2, 3)))] + ([old_id] if rng.random() < 0.5 else [])
        pairs = [(new, bundled[old_id]) for old_id, news in fan.items() if old_id in bundled for new in news]
        rng.shuffle(pairs)
        table3 = {k: v for k, v in bundled.items() if k not in fan}
        cut3 = rng.randrange(len(table3) + 1)
        table3 = dict(list(table3.items())[:cut3] + pairs + list(table3.items())[cut3:])
        evs3 = [ev.mk(e.timestamp, rng.choice(fan[e.eventid]) if e.eventid in fan else e.eventid, e.func_qualifier, e.data,
                      e.tid) for e in evs]
        # a START and its END pair by id, and so do the continuation records of a text the kernel splits over several
        # records of one code: they keep the choice made for their START
        open_choice = {}
        for k3, (e, e3) in enumerate(zip(evs, evs3)):
            if e.eventid in fan and e.func_qualifier == 1:
                open_choice[(e.tid, e.eventid)] = e3.eventid
            elif e.eventid in fan and e.func_qualifier in (0, 2) and (e.tid, e.eventid) in open_choice:
                chosen = open_choice[(e.tid, e.eventid)]
                if e.func_qualifier == 2:
                    del open_choice[(e.tid, e.eventid)]
                evs3[k3] = ev.mk(e.timestamp, chosen, e.func_qualifier, e.data, e.tid)
        data3 = wire.v2_file(gen.threadmap_for(evs3), 8, gen.events_to_records(evs3))
        try:
            trs3 = front(data3, table3, 'traces')
            cs3 = front(data3, table3, 'callstacks')
        except Exception as x:
            res.violation(f'c19-aliased-raises-{core.exc_name(x)}', f'{x!r}', dict(case, file3=data3))
            continue
        if [t[1] for t in trs3] != [t[1] for t in base_traces] or cs3 != cs1:
            k = next((i for i, (a, b) in enumerate(zip(trs3, base_traces)) if a[1] != b[1]), min(len(trs3), len(base_traces)))
            res.violation('c19-name-under-several-ids', f'supplied table lists names under several ids and the records use any '
                          f'of them: trace {k} reads {trs3[k][1] if k < len(trs3) else None!r}, under the bundled ids '
                          f'{base_traces[k][1] if k < len(base_traces) else None!r} ({len(trs3)} vs {len(base_traces)} traces; '
                          f'callstacks {"equal" if cs3 == cs1 else "differ"})',
                          dict(case, file3=data3, ids={hex(a): [hex(x) for x in b] for a, b in fan.items()}))
            continue
        res.count('tables_with_names_under_several_ids_checked')


def run(ctx):
    res = core.Result()
    rng = ctx.rng
    table_texts(res, ctx, rng)
    dumps(res, ctx, rng)
    if ctx.shard == 0:
        text, model = gen_table_text(core.Ctx('C19', ctx.tier, ctx.seed + 5).rng)
        res.sample({'table_text': text[:400], 'entries': len(model)})
    res.assumptions += ['names contain no whitespace; comments contain printable characters and tabs only (a line terminator '
                        'inside a comment would make it two lines); no empty lines',
                        'ids of the hard-coded real-fault range are not re-assigned (that composite is C20\'s)']
    res.require('table_texts_compared', 50)
    res.require('reduced_tables_checked', 5)
    res.require('mapping_kinds_checked', 12)
    res.require('reassigned_tables_checked', 5)
    res.require('tables_with_names_under_several_ids_checked', 5)
    res.require('in_place_edits_checked', 5)
    res.require('tables_with_qualifier_bit_ids_checked', 5)
    res.require('entry_point_comparisons', 10)
    res.require('one_object_table_sequences', 5)
    res.require('pending_requests_with_different_tables', 30)
    res.require('table_files_without_final_line_terminator', 2)
    res.require('large_aligned_tables_compared', 6)
    res.require('callstacks_seen_under_supplied_tables', 1)
    return res


def replay(case, ctx):
    res = core.Result()
    if 'text' in case:
        from pykdebugparser.trace_codes import from_trace_codes_text
        try:
            got = dict(from_trace_codes_text(case['text']))
            if got != ev.parse_codes_text(case['text']):
                res.violation('c19-text-mapping', 'mapping differs from the reference parse', case)
        except Exception as x:
            res.violation(f'c19-text-raises-{core.exc_name(x)}', repr(x), case)
    return res
