"""C11 - flag words and packed fields decode to exactly the names of the bits set.

Monitors: (1) every symbolic flag enum of the handler modules is compared name -> value with the independent
Darwin reference (vlib.darwin_ref); (2) the real helper functions are driven exhaustively over all subsets of
the declared bits (plus undeclared bits) and an oracle checks 'names shown <=> bits set' and the multi-bit fields;
(3) the same words go through the real pipeline and the names are parsed back out of str(trace); (4) ioctl
request words: the shown direction/group/number/length must be the exact inverse of Darwin's _IOC packing.
"""
import itertools
import re

from vlib import core, ev, domain, histories as H, darwin_ref as D

LEVEL = 'exploration'
RULE = ('flag words = every subset of the declared bits of each family (exhaustive up to 2^16 per family in quick, 2^20/2^22 '
        'for message/AST flags in thorough) with and without undeclared bits, every value of each multi-bit field; ioctl '
        'words = 5 named directions x all 8192 lengths, all 65536 group/number pairs, random full words; non-trivial = '
        'value whose shown names were compared with its bits; distinct = distinct (family, value)')
QUICK_SHARDS = 8
THOROUGH_SHARDS = 16


def popcount(x):
    return bin(x).count('1')


class Family:
    """A flag family: declared names (from the repository's enum, values audited against the reference), the
    multi-bit fields and the name shown for 'no bit set'."""

    def __init__(self, label, enum_cls, ref, fields=(), zero_name=None, never_shown_ok=()):
        self.label = label
        self.enum_cls = enum_cls
        self.ref = ref
        self.declared = {m.name: m.value for m in enum_cls.__members__.values()}
        self.fields = fields               # [(mask, {value: name})]
        self.zero_name = zero_name
        field_names = {n for _, members in fields for n in members.values()}
        self.mask_names = set(never_shown_ok)
        self.single = {n: v for n, v in self.declared.items()
                       if popcount(v) == 1 and n not in field_names and n not in self.mask_names
                       and not any(v & mask for mask, _ in fields)}
        self.all_bits = 0
        for v in self.declared.values():
            self.all_bits |= v

    def check(self, value, shown):
        """Returns None or (key, message)."""
        if len(shown) != len(set(shown)):
            return ('duplicate-name', f'{self.label}: {shown} for {hex(value)}')
        for n in shown:
            if n not in self.declared:
                return ('undeclared-name', f'{self.label}: {n} shown for {hex(value)}')
            if n == self.zero_name:
                if value & self.all_bits:
                    return ('zero-name-with-bits-set', f'{self.label}: {n} shown for {hex(value)}')
                continue
            field = next(((mask, members) for mask, members in self.fields if n in members.values()), None)
            if field is not None:
                mask, members = field
                if members.get(value & mask) != n and not (self.label == 'open flags' and value & mask == 3):
                    return ('field-name-does-not-match-value', f'{self.label}: {n} shown for {hex(value)} '
                            f'(field value {oct(value & mask)})')
                continue
            if n in self.mask_names:
                continue
            if not (self.declared[n] & value):
                return ('name-without-bit', f'{self.label}: {n} ({hex(self.declared[n])}) shown for {hex(value)}')
        for n, v in self.single.items():
            if v & value and n not in shown:
                return (f'set-bit-not-shown-{n}', f'{self.label}: bit {n} ({hex(v)}) is set in {hex(value)} but the names '
                        f'shown are {shown}')
        for mask, members in self.fields:
            if self.label == 'open flags' and value & mask == 3:
                continue
            want = members.get(value & mask)
            if want is not None and want not in shown:
                return (f'field-value-not-shown-{want}', f'{self.label}: field value {oct(value & mask)} of {hex(value)} '
                        f'is {want} but the names shown are {shown}')
            if sum(1 for n in shown if n in members.values()) > 1:
                return ('two-names-for-one-field', f'{self.label}: {shown} for {hex(value)}')
        if self.zero_name and not (value & self.all_bits) and not self.fields and self.zero_name not in shown and value == 0:
            return ('zero-name-missing', f'{self.label}: nothing shown for 0, expected {self.zero_name}')
        return None


def families():
    from pykdebugparser.trace_handlers import bsd, mach, perf, dyld
    return {
        'open': Family('open flags', bsd.BscOpenFlags, D.OPEN_FLAGS,
                       fields=[(3, {0: 'O_RDONLY', 1: 'O_WRONLY', 2: 'O_RDWR'})], never_shown_ok=('O_ACCMODE',)),
        'stat': Family('file mode', bsd.StatFlags, D.STAT_MODE,
                       fields=[(0o170000, {0o10000: 'S_IFIFO', 0o20000: 'S_IFCHR', 0o40000: 'S_IFDIR', 0o60000: 'S_IFBLK',
                                           0o100000: 'S_IFREG', 0o120000: 'S_IFLNK', 0o140000: 'S_IFSOCK'})]),
        'access': Family('access mode', bsd.BscAccessFlags, D.ACCESS_MODE, zero_name='F_OK'),
        'msg': Family('message flags', bsd.SocketMsgFlags, D.MSG_FLAGS),
        'chflags': Family('file flags', bsd.BscChangeableFlags, D.FILE_FLAGS),
        'flock': Family('lock operation', bsd.FlockOperation, D.FLOCK_OPS),
        'vmprot': Family('vm protection', mach.VmProtection, D.VM_PROT, zero_name='VM_PROT_NONE'),
        'ast': Family('AST reasons', mach.AsynchronousSystemTrapsReason, D.AST, zero_name='AST_NONE'),
        'thstate': Family('thread state', mach.ThreadState, D.THREAD_STATE),
        'sampler': Family('sampler actions', perf.SamplerAction, D.SAMPLER),
        'kperfti': Family('kperf thread state', perf.KperfTiState, D.KPERF_TI),
        'callstack': Family('callstack flags', perf.CallstackFlag, D.CALLSTACK),
        'rtld': Family('dlopen mode', dyld.RtldFlag, D.RTLD),
    }


def helper_functions():
    from pykdebugparser.trace_handlers import bsd, mach, perf, dyld
    return {
        'open': bsd.serialize_open_flags, 'stat': bsd.serialize_stat_flags, 'access': bsd.serialize_access_flags,
        'vmprot': mach.to_vm_prot, 'ast': mach.to_ast_reasons, 'thstate': mach.to_thread_state,
        'sampler': perf.to_sampler_action, 'kperfti': perf.to_kperf_ti_state, 'callstack': perf.to_callstack_flags,
        'rtld': dyld.to_rtld_flags,
    }


# decoders that show a flag family: (decoder, which event, word index, transform word->field value, family)
def pipeline_users():
    ident = lambda w: w
    return [
        ('BSC_open', 'S', 1, ident, 'open'), ('BSC_open_nocancel', 'S', 1, ident, 'open'), ('BSC_openat', 'S', 2, ident, 'open'),
        ('BSC_openat_nocancel', 'S', 2, ident, 'open'), ('BSC_open_dprotected_np', 'S', 1, ident, 'open'),
        ('BSC_guarded_open_np', 'S', 3, ident, 'open'), ('BSC_guarded_open_dprotected_np', 'S', 3, ident, 'open'),
        ('BSC_openbyid_np', 'S', 2, ident, 'open'), ('BSC_shm_open', 'S', 1, ident, 'open'),
        ('BSC_sem_open', 'S', 1, ident, 'open'),
        ('BSC_chmod', 'S', 1, ident, 'stat'), ('BSC_fchmod', 'S', 1, ident, 'stat'), ('BSC_fchmodat', 'S', 2, ident, 'stat'),
        ('BSC_mkdir', 'S', 1, ident, 'stat'), ('BSC_mkdirat', 'S', 2, ident, 'stat'), ('BSC_mkfifo', 'S', 1, ident, 'stat'),
        ('BSC_access', 'S', 1, ident, 'access'), ('BSC_faccessat', 'S', 2, ident, 'access'),
        ('BSC_recvfrom', 'S', 3, ident, 'msg'), ('BSC_recvfrom_nocancel', 'S', 3, ident, 'msg'),
        ('BSC_chflags', 'S', 1, ident, 'chflags'), ('BSC_fchflags', 'S', 1, ident, 'chflags'),
        ('BSC_sys_flock', 'S', 1, ident, 'flock'),
        ('MACH_SCHED', 'S', 0, ident, 'ast'), ('MACH_BLOCK', 'S', 0, ident, 'ast'), ('MACH_DISPATCH', 'S', 1, ident, 'ast'),
        ('MACH_IDLE', 'E', 3, ident, 'ast'), ('MACH_DISPATCH', 'S', 2, ident, 'thstate'),
        ('RealFaultAddressInternal', 'S', 1, lambda w: (w >> 8) & 0xff, 'vmprot'),
        ('RealFaultAddressExternal', 'S', 1, lambda w: (w >> 8) & 0xff, 'vmprot'),
        ('RealFaultAddressSharedCache', 'S', 1, lambda w: (w >> 8) & 0xff, 'vmprot'),
        ('PERF_Event', 'S', 0, ident, 'sampler'), ('PERF_THD_Data', 'S', 3, lambda w: w & 0xffff, 'kperfti'),
        ('PERF_STK_UHdr', 'S', 0, ident, 'callstack'), ('DBG_DYLD_TIMING_DLOPEN', 'S', 2, ident, 'rtld'),
    ]


def audit_enums(res, fams):
    """(1) name -> value against the reference."""
    from pykdebugparser.trace_handlers import bsd
    extra = {'signals': (bsd.Signals, {v: k for k, v in D.SIGNALS.items()}) if hasattr(bsd, 'Signals') else None,
             'socket options': (bsd.SocketOptionName, {v: k for k, v in D.SO_OPTIONS.items()})}
    unchecked = []
    for key, fam in fams.items():
        for name, value in fam.declared.items():
            res.case(('enum', fam.label, name))
            if name in fam.ref:
                res.count('enum_values_compared_with_reference')
                if fam.ref[name] != value:
                    res.violation(f'c11-enum-value-{name}', f'{fam.label}: {name} = {hex(value)} in the repository, Darwin '
                                  f'defines {hex(fam.ref[name])}', {'family': key, 'name': name})
            else:
                unchecked.append(name)
    for label, pair in extra.items():
        if pair is None:
            continue
        cls, ref = pair
        for m in cls.__members__.values():
            if m.name in ref:
                res.count('enum_values_compared_with_reference')
                if ref[m.name] != m.value:
                    res.violation(f'c11-enum-value-{m.name}', f'{label}: {m.name} = {hex(m.value)}, Darwin defines '
                                  f'{hex(ref[m.name])}', {'name': m.name})
            else:
                unchecked.append(m.name)
    res.notes['names_not_in_reference_unchecked'] = sorted(unchecked)


def values_for(fam, ctx, rng, cap_bits):
    """All subsets of declared single bits x all field values (+ undeclared bits), capped."""
    bits = sorted(fam.single.values())
    field_values = [[0]]
    for mask, members in fam.fields:
        low = mask & -mask
        field_values.append([v * low for v in range(mask // low + 1)])
    extras = [0, 1 << 40, 0xffffffff00000000]
    undeclared = [b for b in (1 << i for i in range(32)) if not b & fam.all_bits and not any(b & m for m, _ in fam.fields)]
    if len(bits) <= cap_bits:
        subsets = range(1 << len(bits))
        exhaustive = True
    else:
        exhaustive = False
        subsets = set([0, (1 << len(bits)) - 1])
        subsets |= {1 << i for i in range(len(bits))}
        subsets |= {(1 << i) | (1 << j) for i in range(len(bits)) for j in range(i)}
        subsets |= {((1 << len(bits)) - 1) ^ (1 << i) for i in range(len(bits))}
        while len(subsets) < ctx.pick(3000, 60000):
            subsets.add(rng.getrandbits(len(bits)))
        subsets = sorted(subsets)
    # boundary words: exactly the highest declared bit, everything set, bits above 31 only, the word just above / below
    top = 1 << (fam.all_bits.bit_length() - 1) if fam.all_bits else 1
    for v in (top, top - 1, top << 1, fam.all_bits, (1 << 32) - 1, (1 << 64) - 1, 1 << 32, (1 << 32) | top, 1 << 63,
              0xffffffff00000000, fam.all_bits | (1 << 40)):
        yield v, False
    idx = 0
    for sub in subsets:
        base = 0
        for i, b in enumerate(bits):
            if sub >> i & 1:
                base |= b
        for combo in itertools.product(*field_values):
            v = base
            for c in combo:
                v |= c
            idx += 1
            if not ctx.mine(idx):
                continue
            yield v, exhaustive
            if idx % 17 == 0 and undeclared:
                yield v | rng.choice(undeclared) | rng.choice(extras), exhaustive


def drive_helpers(res, ctx, rng, fams):
    helpers = helper_functions()
    for key, fn in helpers.items():
        fam = fams[key]
        cap = ctx.pick(16, 22)
        n = 0
        for value, exhaustive in values_for(fam, ctx, rng, cap):
            n += 1
            try:
                shown = [m.name for m in fn(value)]
            except Exception as x:
                res.violation(f'c11-helper-raises-{key}-{core.exc_name(x)}', f'{fam.label}: helper raised {x!r} on '
                              f'{hex(value)}', {'family': key, 'value': value})
                break
            res.case((key, value))
            bad = fam.check(value, shown)
            if bad:
                res.violation(f'c11-{key}-{bad[0]}', bad[1], {'family': key, 'value': value})
                break
        res.count(f'helper_values_{key}', n)
        res.count('helper_values', n)
        if n and exhaustive:
            res.notes.setdefault('families_driven_exhaustively', []).append(key)


NAME_RE = re.compile(r'\b([A-Z][A-Z0-9]*_[A-Za-z0-9_]+)\b')


def shown_names(text, fam):
    return [n for n in NAME_RE.findall(text) if n in fam.declared]


def drive_pipeline(res, ctx, rng, fams):
    users = pipeline_users()
    for ui, (name, which, idx, xf, key) in enumerate(users):
        if not ctx.mine(ui):
            continue
        fam = fams[key]
        bits = sorted(fam.single.values())
        values = {0, fam.all_bits}
        values |= set(bits)
        for mask, members in fam.fields:
            low = mask & -mask
            values |= {v * low for v in range(mask // low + 1)}
            values |= {v * low | rng.choice(bits) for v in range(mask // low + 1)}
        for _attempt in range(ctx.pick(300, 4000)):
            if len(values) >= ctx.pick(120, 1500):
                break
            v = 0
            for b in bits:
                if rng.random() < 0.4:
                    v |= b
            for mask, members in fam.fields:
                low = mask & -mask
                v |= rng.randrange(mask // low + 1) * low
            values.add(v)
        for v in sorted(values):
            start = domain.gen_words(rng, name, 'S')
            end = domain.gen_words(rng, name, 'E')
            if name.startswith('BSC_'):
                end[0] = 0
            if which == 'S':
                if name.startswith('RealFault'):
                    start[idx] = (rng.getrandbits(16) << 16) | ((v & 0xff) << 8) | rng.randrange(1, 12)
                    v = v & 0xff
                elif name == 'PERF_THD_Data':
                    start[idx] = (rng.getrandbits(16) << 16) | (v & 0xffff)
                else:
                    start[idx] = v
            else:
                end[idx] = v
            if name in ('BSC_shm_open', 'BSC_sem_open'):
                start[2] = 0   # the creation mode is a different family; keep it out of the text
            try:
                if name in ('PERF_THD_Data', 'PERF_STK_UHdr') or name.startswith('RealFault') or name in ('MACH_SCHED', 'MACH_BLOCK', 'MACH_DISPATCH'):
                    events = [ev.mk(1000, name, 0, start, 6)]
                else:
                    events = H.materialize(H.on_thread(6, H.syscall(name, start, end)))
                parser = ev.new_parser()
                text = None
                for e in events:
                    t = parser.feed(e)
                    if t is not None:
                        text = str(t)
            except Exception as x:
                res.violation(f'c11-pipeline-raises-{name}-{core.exc_name(x)}', f'{name}: {x!r} on {hex(v)}',
                              {'decoder': name, 'value': v})
                break
            if text is None:
                res.violation('c11-no-trace', f'{name}: no trace', {'decoder': name})
                break
            res.case((name, key, v))
            res.count('pipeline_renderings_checked')
            # MACH_DISPATCH shows two families in one text: judge each family on its own names only
            shown = shown_names(text, fam)
            if name == 'MACH_DISPATCH':
                other = start[2] if key == 'ast' else start[1]
            bad = fam.check(v, shown)
            if bad:
                res.violation(f'c11-{key}-{bad[0]}', f'through {name}: {bad[1]}; text {text!r}',
                              {'decoder': name, 'family': key, 'value': v})
                break
        res.count('pipeline_decoders_driven')


def after_other_calls(res, ctx, rng, fams):
    """A flag word is decoded from its own bits whatever the process did BEFORE: one long-lived parser that knows the pids
    of its threads; every decodable BSD call in turn is made by another thread of the same process (its free START words
    are mask-like values: 0o22, 0o777, all declared bits, the flag word itself - umask, fcntl, sigprocmask, setsockopt ...
    set per-process state in the kernel, none of which changes what a later record's word MEANS), then every flag-showing
    decoder renders a word on the first thread."""
    inv = H.inventory()
    preds = sorted(inv['bsd'])
    users = [u for u in pipeline_users() if u[1] == 'S' and not u[0].startswith(('RealFault', 'PERF_', 'MACH_'))]
    parser = ev.new_parser(threads_pids={6: 77, 8: 77, 9: 78}, pids_names={77: 'proc', 78: 'other'})
    ts = [1000]

    def feed(seq, tid):
        out = None
        for c, q, w in seq:
            ts[0] += 7
            t = parser.feed(ev.mk(ts[0], c, q, w, tid))
            if t is not None:
                out = str(t)
        return out
    n = 0
    for pred in preds:
        for name, which, idx, xf, key in users:
            n += 1
            if not ctx.mine(n):
                continue
            fam = fams[key]
            v = fam.all_bits if n % 3 == 0 else rng.getrandbits(32) & (fam.all_bits | sum(m for m, _ in fam.fields))
            words = domain.gen_words(rng, pred, 'S')
            spec = domain.TABLE.get(pred, {})
            for j in range(4):
                if ('S', j) not in spec and not (pred in ('BSC_setsockopt', 'BSC_getsockopt') and j in (1, 2)):
                    words[j] = rng.choice((0o22, 0o777, 0o7777, 0xffff, v, fam.all_bits))
            end = domain.gen_words(rng, pred, 'E')
            end[0] = 0
            start = domain.gen_words(rng, name, 'S')
            start[idx] = v
            if name in ('BSC_shm_open', 'BSC_sem_open'):
                start[2] = 0
            e2 = domain.gen_words(rng, name, 'E')
            e2[0] = 0
            case = {'predecessor': pred, 'predecessor_start': words, 'decoder': name, 'family': key, 'value': v}
            try:
                feed(H.syscall(pred, words, end), rng.choice((8, 8, 6)))
                text = feed(H.syscall(name, start, e2), 6)
            except Exception as x:
                res.violation(f'c11-pipeline-raises-{name}-{core.exc_name(x)}', f'{name} on {hex(v)} after a {pred} call of the '
                              f'same process: {x!r}', case)
                return
            res.count('renderings_after_another_call_of_the_process')
            res.case(('after', pred, name, v))
            bad = fam.check(v, shown_names(text or '', fam)) if text is not None else ('no-trace', 'no trace')
            if bad:
                res.violation(f'c11-{key}-{bad[0]}', f'through {name} after {pred}({", ".join(hex(w) for w in words)}) by a thread '
                              f'of the same process on one parser: {bad[1]}; text {text!r}', case)
                return


def sampler_composites(res, ctx, rng, fams):
    """The sampler trace carries the callstack flags of its own header record and the thread-state bits of its own
    thread-data record - also when samples of several threads are interleaved in the stream (per-CPU buffers merged)."""
    for it in range(ctx.pick(60, 2000)):
        nthreads = rng.choice((1, 2, 2, 3))
        progs, words = [], []
        for t in range(nthreads):
            cs = rng.getrandbits(9) | (rng.getrandbits(3) << 9 if rng.random() < 0.2 else 0)
            ti = rng.getrandbits(7) | (rng.getrandbits(20) << 16 if rng.random() < 0.5 else 0)
            words.append((cs, ti))
            progs.append([H.A('PERF_Event', H.START, (0x9 | (rng.getrandbits(14) & ~0x9), t, 0, 0)),
                          H.thd_data(100 + t, 20 + t, 0, ti), H.stk_uhdr(cs, 4), H.stk_udata([1, 2, 3, 4]),
                          H.A('PERF_Event', H.END, (0, 0, 0, 0))])
        order = H.round_robin(progs) if it % 2 else H.random_interleaving(rng, progs)
        events = H.materialize([(20 + t, progs[t][i]) for t, i in order])
        parser = ev.new_parser()
        case = {'events': [ev.ev_to_case(e) for e in events]}
        try:
            traces = [t for t in (parser.feed(e) for e in events) if t is not None]
        except Exception as x:
            res.violation(f'c11-sampler-raises-{core.exc_name(x)}', f'{x!r}', case)
            return
        for tr in traces:
            if type(tr).__name__ != 'PerfEvent':
                continue
            cs, ti = words[tr.ktraces[0].tid - 20]
            res.case(('sampler', cs, ti, nthreads))
            res.count('sampler_composites_checked')
            shown_cs = [f.name for f in (tr.cs_flags or [])]
            bad = fams['callstack'].check(cs, shown_cs) if tr.cs_flags is not None else ('missing', 'sampler carries no callstack flags')
            if bad:
                res.violation(f'c11-callstack-{bad[0]}', f'sampler of thread {tr.ktraces[0].tid} ({nthreads} samples interleaved): '
                              f'its header word is {hex(cs)}; {bad[1]}', case)
                return
            shown_ti = [f.name for f in tr.th_info.runmode] if tr.th_info is not None else None
            bad = fams['kperfti'].check(ti & 0xffff, shown_ti) if shown_ti is not None else ('missing', 'sampler carries no thread info')
            if bad:
                res.violation(f'c11-kperfti-{bad[0]}', f'sampler of thread {tr.ktraces[0].tid} ({nthreads} samples interleaved): '
                              f'its thread-data word is {hex(ti)}; {bad[1]}', case)
                return
            if shown_names(str(tr.th_info), fams['kperfti']) != shown_ti:
                res.violation('c11-kperfti-text', f'{str(tr.th_info)!r} vs {shown_ti}', case)
                return


def fault_composites(res, ctx, rng, fams):
    """The protection names a page-fault trace shows are those of a real-fault record of ITS OWN window.  The capture
    is a dump read by the front end and consumed lazily, each trace dropped before the next is asked for (records die,
    their addresses are reused); real-fault records also occur outside any window and between the windows run a varying
    number of records of other threads."""
    import io
    from pykdebugparser.pykdebugparser import PyKdebugParser
    from vlib import gen, wire
    kinds = ('internal', 'external', 'shared', 'purgeable')
    for it in range(ctx.pick(40, 1200)):
        items, windows = [], {}
        for w in range(rng.randrange(3, 9)):
            tid = 30 + rng.randrange(3)
            for _ in range(rng.randrange(0, 3)):        # real-fault records outside any window
                items.append((tid, H.real_fault(rng.choice(kinds), rng.getrandbits(40), rng.randrange(256), rng.randrange(1, 12), 77)))
            for _ in range(rng.randrange(0, 7)):        # other threads in between
                items += [(40, a) for a in H.unrelated(rng, 1)]
            nested = [(rng.choice(kinds), rng.randrange(256)) for _ in range(rng.randrange(0, 3))]
            addr = (it << 20) | (w << 8) | 0x10
            seq = H.page_fault(addr, 0, rng.choice((0, 0, 0, 1)), rng.randrange(1, 12),
                               [H.real_fault(k, rng.getrandbits(40), p, rng.randrange(1, 12), 78) for k, p in nested])
            items += [(tid, a) for a in seq]
            windows[addr] = nested
        events = H.materialize(items, t0=0x100000001)
        data = wire.v2_file(gen.threadmap_for(events), 8, gen.events_to_records(events))
        case = {'file': data}
        seen = 0
        try:
            for tr in PyKdebugParser().traces(io.BytesIO(data)):
                if type(tr).__name__ != 'MachVmfault':
                    continue
                nested = windows.get(tr.addr)
                if nested is None:
                    continue
                seen += 1
                shown = None if tr.caller_prot is None else sorted(f.name for f in tr.caller_prot)
                acceptable = [None] + [sorted(n for n, b in fams['vmprot'].single.items() if p & b) for k, p in nested
                                       if k != 'purgeable']
                res.case(('fault-composite', tuple(nested)))
                res.count('fault_composites_checked')
                if shown is not None and [x for x in shown if x != 'VM_PROT_NONE'] not in \
                        [[x for x in a if x != 'VM_PROT_NONE'] for a in acceptable if a is not None]:
                    res.violation('c11-vmprot-of-another-record', f'page fault at {hex(tr.addr)} shows {shown}; the real-fault '
                                  f'records of its window carry the protections {[(k, hex(p)) for k, p in nested]} (capture '
                                  f'consumed lazily, real-fault records also outside windows)', case)
                    return
                del tr
        except Exception as x:
            res.violation(f'c11-fault-composite-raises-{core.exc_name(x)}', f'{x!r} at {core.short_tb(x)}', case)
            return
        if seen != len(windows):
            res.violation('c11-fault-composite-count', f'{seen} page-fault traces for {len(windows)} windows', case)
            return


FAULT_LINE_WORDS = (0, 1, 77, 255, (1 << 31) - 1, 1 << 31, (1 << 32) - 1, 1 << 32, 1 << 63, (1 << 64) - 1)


def fault_lines(res, ctx, rng, fams):
    """The LINE of a successful page fault whose window holds one real-fault record: it shows the names of exactly the
    protection bits of that record, for every protection byte x every kind of real-fault record x boundary values of the
    record's other words (pid 0 is the kernel task, address / offset / tag 0 are ordinary) x every fault type."""
    fam = fams['vmprot']
    idx = 0
    for kind in ('internal', 'external', 'shared'):
        for prot in range(256):
            idx += 1
            if not ctx.mine(idx):
                continue
            for k, pid in enumerate(FAULT_LINE_WORDS):
                vaddr, offset = rng.choice(FAULT_LINE_WORDS), rng.choice(FAULT_LINE_WORDS)
                tag = rng.choice((0, 1, 0xffff, rng.getrandbits(16)))
                ftype = 1 + (prot + k) % 11
                addr = rng.choice(FAULT_LINE_WORDS)
                seq = H.page_fault(addr, rng.choice((0, 1)), 0, 1 + (prot + 3 * k) % 11,
                                   [H.real_fault(kind, vaddr, prot, ftype, pid, tag=tag, offset=offset)])
                events = H.materialize(H.on_thread(6, seq))
                case = {'fault_line': [kind, prot, pid], 'events': [ev.ev_to_case(e) for e in events]}
                try:
                    parser = ev.new_parser()
                    texts = [(type(t).__name__, str(t)) for t in (parser.feed(e) for e in events) if t is not None]
                except Exception as x:
                    res.violation(f'c11-fault-line-raises-{core.exc_name(x)}', f'page fault with a {kind} real-fault record, '
                                  f'protection byte {hex(prot)}, pid word {hex(pid)}: {x!r}', case)
                    return
                res.case(('fault-line', kind, prot, pid))
                res.count('fault_lines_checked')
                lines = [t for n, t in texts if n == 'MachVmfault']
                if len(lines) != 1 or ', vm_prot: ' not in lines[0] or not lines[0].endswith(f', pid: {pid}'):
                    res.violation('c11-vmprot-fault-line-without-protections', f'page fault with a {kind} real-fault record '
                                  f'(protection byte {hex(prot)}, pid word {hex(pid)}, address {hex(vaddr)}, offset {hex(offset)}): '
                                  f'the line(s) read {lines}', case)
                    return
                shown = shown_names(lines[0].split(', vm_prot: ', 1)[1], fam)
                bad = fam.check(prot, shown)
                if bad:
                    res.violation(f'c11-vmprot-{bad[0]}', f'page-fault line: {bad[1]}; text {lines[0]!r}', case)
                    return


def aborted_decodes(res, ctx, rng, fams):
    """The decode of a flag word is cut short at every line it executes inside the library by an exception that does not
    come from the data (vlib.monitors.AbortAt), the process goes on, and the same word is decoded again: the names are
    those of its bits - nothing half-built by the aborted attempt is reused.  Words are fresh (never decoded before in
    this process) so that a first-time path is the one being interrupted."""
    from vlib import monitors
    helpers = helper_functions()
    for key, fn in sorted(helpers.items()):
        fam = fams[key]
        bits = sorted(fam.single.values())
        for rep in range(ctx.pick(3, 30)):
            value = 0
            for b in bits:
                if rng.random() < 0.6:
                    value |= b
            k = 0
            while k < 300:
                k += 1
                fired = False
                try:
                    with monitors.AbortAt(k) as ab:
                        fn(value)
                    fired = ab.fired
                except monitors.Aborted:
                    fired = True
                except Exception:
                    fired = True
                res.count('aborted_flag_decodes')
                try:
                    # (on a watchdog: an aborted attempt that leaves a lock held makes the next decode wait for ever)
                    import threading
                    box = []
                    worker = threading.Thread(target=lambda: box.append(fn(value)), daemon=True)
                    worker.start()
                    worker.join(timeout=20)
                    if worker.is_alive():
                        res.violation(f'c11-{key}-hangs-after-an-aborted-decode', f'{fam.label}: after a decode of {hex(value)} '
                                      f'was aborted at line {k} inside the library the next decode of that word does not '
                                      f'return (20 s)', {'family': key, 'value': value, 'abort_at': k})
                        return
                    shown = [getattr(m, 'name', str(m)) for m in (box[0] if box else fn(value))]
                except Exception as x:
                    res.violation(f'c11-helper-raises-{key}-{core.exc_name(x)}', f'{fam.label}: after an aborted decode of '
                                  f'{hex(value)} (line {k}) the helper raises {x!r}', {'family': key, 'value': value})
                    return
                bad = fam.check(value, shown)
                if bad:
                    res.violation(f'c11-{key}-{bad[0]}', f'after a decode of {hex(value)} was aborted at line {k} inside the '
                                  f'library: {bad[1]}', {'family': key, 'value': value, 'abort_at': k})
                    return
                if not fired:
                    break


def cold_start(res, ctx, rng, fams):
    """Every flag family decoded for the FIRST time in a process by several OS threads at once (vlib/coldstart.py): the
    names shown are those a warm single-threaded run shows (and those were judged bit by bit above)."""
    from vlib import stream
    cases = []
    for name, which, idx, xf, key in pipeline_users():
        fam = fams[key]
        for v in (fam.all_bits, sum(sorted(fam.single.values())[::2])):
            start = domain.gen_words(rng, name, 'S')
            end = domain.gen_words(rng, name, 'E')
            if name.startswith('BSC_'):
                end[0] = 0
            if which == 'S':
                if name.startswith('RealFault'):
                    start[idx] = (0x11 << 16) | ((v & 0xff) << 8) | 3
                elif name == 'PERF_THD_Data':
                    start[idx] = (0x22 << 16) | (v & 0xffff)
                else:
                    start[idx] = v
            else:
                end[idx] = v
            if name in ('PERF_THD_Data', 'PERF_STK_UHdr') or name.startswith('RealFault') or \
                    name in ('MACH_SCHED', 'MACH_BLOCK', 'MACH_DISPATCH'):
                seq = [H.A(name, H.NONE, start)]
            else:
                seq = H.syscall(name, start, end)
            try:
                parser = ev.new_parser()
                texts = [str(t) for t in (parser.feed(e) for e in H.materialize(H.on_thread(6, seq), t0=5000)) if t is not None]
            except Exception:
                continue                # (judged by drive_pipeline)
            cases.append((seq, texts, f'{name} with {fam.label} word {hex(v)}'))
    stream.run_cold(res, 'c11', cases, rng, 'flag words', n_procs=ctx.pick(8, 24), n_cases=len(cases))
    # the same calls as a dump through the command line, on a pipe and on pseudo terminals: a flag list is not cut short
    # because a terminal of 80 columns is looking
    from vlib import cli, gen, wire
    events = []
    for seq, _, _ in cases:
        events += H.materialize(H.on_thread(6, seq), t0=(events[-1].timestamp + 7) if events else 0x100000001)
    data = wire.v2_file([(6, 100, b'proc0', b'')], 8, gen.events_to_records(events))
    cli.terminal_agrees(res, 'c11', data, f'{len(cases)} calls with flag words', columns=(80, 200))


IOC_RE = re.compile(r"/\* _IOC\((.*?), '(.)', (\d+), (\d+)\) \*/", re.S)


def drive_ioctl(res, ctx, rng):
    dirs = sorted(D.IOC_NAMES)

    def one(word):
        events = H.materialize(H.on_thread(6, H.syscall('BSC_ioctl', (3, word, 0x1000, 0), (0, 0, 0, 0))))
        parser = ev.new_parser()
        text = None
        try:
            for e in events:
                t = parser.feed(e)
                if t is not None:
                    text = str(t)
        except Exception as x:
            res.violation(f'c11-ioctl-raises-{core.exc_name(x)}', f'ioctl request {hex(word)}: {x!r}', {'word': word})
            return False
        res.case(('ioctl', word))
        res.count('ioctl_words_checked')
        m = IOC_RE.search(text or '')
        if not m:
            res.violation('c11-ioctl-shape', f'ioctl request {hex(word)}: {text!r}', {'word': word})
            return False
        direction = word & 0xe0000000
        want = (D.IOC_NAMES[direction], chr((word >> 8) & 0xff), word & 0xff, (word >> 16) & 0x1fff)
        got = (m.group(1), m.group(2), int(m.group(3)), int(m.group(4)))
        if got != want:
            res.violation('c11-ioctl-unpacking', f'ioctl request {hex(word)} shown as _IOC{got}, Darwin packs it from '
                          f'_IOC{want}', {'word': word})
            return False
        if D.ioc(direction, ord(got[1]), got[2], got[3]) != word & 0xffffffff:
            res.violation('c11-ioctl-not-inverse', f'{hex(word)}', {'word': word})
            return False
        return True
    n = 0
    for d in dirs:
        for length in range(0, 0x2000):
            n += 1
            if ctx.mine(n) and (ctx.thorough or length % 8 in (0, 7) or length > 0x1ff0 or length in range(4090, 4102)):
                if not one(D.ioc(d, ord('t'), 19, length)):
                    return
    for gn in range(0, 65536):
        n += 1
        if ctx.mine(n) and (ctx.thorough or gn % 16 == n % 16):
            g = gn >> 8
            if g in (0x0a, 0x0d, 0x85, 0x1c, 0x1d, 0x1e, 0x0b, 0x0c) or 0xd800 <= g <= 0xdfff:
                continue     # line-terminator group characters would split the text across lines
            if not one(D.ioc(rng.choice(dirs), g, gn & 0xff, rng.randrange(0x2000))):
                return
    for _ in range(ctx.pick(2000, 100000) // ctx.nshards):
        w = rng.getrandbits(29) | rng.choice(dirs)
        if (w >> 8) & 0xff in (0x0a, 0x0d, 0x85, 0x1c, 0x1d, 0x1e, 0x0b, 0x0c):
            continue
        if not one(w | (rng.getrandbits(32) << 32 if rng.random() < 0.2 else 0)):
            return


def run(ctx):
    res = core.Result()
    rng = ctx.rng
    fams = families()
    if ctx.shard == 0:
        audit_enums(res, fams)
    drive_helpers(res, ctx, rng, fams)
    drive_pipeline(res, ctx, rng, fams)
    after_other_calls(res, ctx, rng, fams)
    sampler_composites(res, ctx, rng, fams)
    fault_composites(res, ctx, rng, fams)
    fault_lines(res, ctx, rng, fams)
    if ctx.shard == 0 or ctx.thorough:
        cold_start(res, ctx, rng, fams)
    if ctx.shard in (1, 2) or ctx.thorough:
        aborted_decodes(res, ctx, rng, fams)
    drive_ioctl(res, ctx, rng)
    if ctx.shard == 0:
        from pykdebugparser.trace_handlers import bsd
        res.sample({'family': 'file mode', 'value': oct(0o60644), 'shown': [m.name for m in bsd.serialize_stat_flags(0o60644)]})
        res.sample({'family': 'open flags', 'value': hex(0x1000a02), 'shown': [m.name for m in bsd.serialize_open_flags(0x1000a02)]})
        res.sample({'ioctl_word': hex(D.ioc(D.IOC_INOUT, ord('t'), 19, 0x1000))})
    res.assumptions += ['Darwin values = vlib/darwin_ref.py (typed from the XNU headers, trusted base); names it does not '
                        'list are reported as unchecked', 'access mode 3 (the O_ACCMODE mask itself) is not a mode: any '
                        'rendering accepted', 'ioctl: the five named directions']
    res.require('helper_values', 1000)
    res.require('pipeline_renderings_checked', 100)
    res.require('renderings_after_another_call_of_the_process', 2000)
    res.require('ioctl_words_checked', 100)
    res.require('sampler_composites_checked', 20)
    res.require('fault_composites_checked', 50)
    res.require('fault_lines_checked', 1000)
    res.require('cold_start_interpreters', 8)
    res.require('enum_values_compared_with_reference', 50)
    return res


def finalize(res):
    lst = res.notes.get('families_driven_exhaustively')
    if lst:
        res.notes['families_driven_exhaustively'] = sorted(set(lst))


def replay(case, ctx):
    res = core.Result()
    fams = families()
    if 'word' in case:
        class C:
            thorough = False
            nshards = 1
            def mine(self, i): return False
            def pick(self, a, b): return 0
        drive_ioctl.__globals__['D']  # noqa
        events = H.materialize(H.on_thread(6, H.syscall('BSC_ioctl', (3, case['word'], 0x1000, 0), (0, 0, 0, 0))))
        parser = ev.new_parser()
        try:
            for e in events:
                t = parser.feed(e)
                if t is not None:
                    print('  ', str(t))
        except Exception as x:
            res.violation(f'c11-ioctl-raises-{core.exc_name(x)}', repr(x), case)
        return res
    if 'fault_line' in case:
        parser = ev.new_parser()
        for e in [ev.ev_from_case(c) for c in case['events']]:
            t = parser.feed(e)
            if t is not None:
                print('  ', str(t))
                if type(t).__name__ == 'MachVmfault':
                    prot = case['fault_line'][1]
                    bad = fams['vmprot'].check(prot, shown_names(str(t).split(', vm_prot: ', 1)[1], fams['vmprot'])) \
                        if ', vm_prot: ' in str(t) else ('fault-line-without-protections', 'the line shows no protections')
                    if bad:
                        res.violation(f'c11-vmprot-{bad[0]}', f'{bad[1]}; text {str(t)!r}', case)
        return res
    if 'family' in case and 'value' in case and case['family'] in helper_functions():
        fam = fams[case['family']]
        shown = [m.name for m in helper_functions()[case['family']](case['value'])]
        bad = fam.check(case['value'], shown)
        if bad:
            res.violation(f'c11-{case["family"]}-{bad[0]}', bad[1], case)
    else:
        audit_enums(res, fams)
    return res
