"""C02 - a version-2 dump yields exactly its records, in order, and its thread map.

Monitor: generated v2 files (vlib.wire builder = ground-truth model) parsed by the real container parser through
both public entry points; histories of parses re-using one parser object / one pair of dicts; the from_kd_buf
contract stays attached.  Oracle: the builder's own model, accepting every valid decomposition of a genuinely
ambiguous file (zero padding vs all-zero leading records).
"""
import io

from vlib import core, wire, gen, monitors

LEVEL = 'exploration'
RULE = ('v2 files built from (thread map of n entries with duplicate keys / multi-byte names / junk after NUL, padding '
        'length, m records of arbitrary bytes, random header filler); histories = 1-4 parses on one parser object '
        'alternating v2/v3; non-trivial = file with at least one record or one map entry whose events and tables were '
        'compared with the model; distinct = distinct file bytes')
QUICK_SHARDS = 4
THOROUGH_SHARDS = 16
KNOWN_KEY = 'v2-pad-eats-leading-zeros-of-first-record'


def decompositions(region, pad):
    """All valid readings of the bytes after the thread map as 'zero padding then complete records'."""
    out = []
    lead = len(region) - len(region.lstrip(b'\x00'))
    p = len(region) % 64
    while p <= lead:
        out.append([region[i:i + 64] for i in range(p, len(region), 64)])
        p += 64
    return out


def shifted_model(region):
    """What the greedy zero-byte padding skipper does (finding F02): consume every leading zero byte, then read
    64-byte chunks; a trailing partial chunk ends in an error."""
    lead = len(region) - len(region.lstrip(b'\x00'))
    rest = region[lead:]
    full = [rest[i:i + 64] for i in range(0, len(rest) - len(rest) % 64, 64)]
    return full, (len(rest) % 64 != 0)


def drive(fn):
    """Collect what a generator yields until it stops; returns (items, exception or None)."""
    items = []
    try:
        for x in fn():
            items.append(x)
    except Exception as e:
        return items, e
    return items, None


def check_v2_parse(res, f, events, exc, tables, where):
    """Oracle for one parse of file f (events observed, exception, (threads_pids, pids_names) afterwards)."""
    region = f['data'][wire.v2_events_offset(f['entries'], 0):]
    try:
        got = [wire.event_tuple(e) for e in events]
    except Exception as e:
        res.violation('c02-shape', f'yielded objects are not events: {e!r} ({where})', case_of(f))
        return
    valid = [[wire.ref_tuple(r) for r in d] for d in decompositions(region, f['pad'])]
    ok = exc is None and got in valid
    if not ok:
        full, partial = shifted_model(region)
        lead = len(region) - len(region.lstrip(b'\x00'))
        in_class = (len(region) - lead) % 64 != 0 and lead > f['pad']
        predicted = [wire.ref_tuple(r) for r in full]
        if in_class and got == predicted and (exc is not None) == partial and \
                (exc is None or type(exc).__name__ == 'error'):
            res.violation(KNOWN_KEY, f'first record begins with {lead - f["pad"]} zero byte(s); the padding skipper '
                          f'consumed them and every later record is shifted ({where})', case_of(f))
            res.count('known_f02_observed')
        else:
            exp = valid[-1] if valid else []
            res.violation('c02-events' + (f'-raises-{core.exc_name(exc)}' if exc is not None else ''),
                          f'{where}: expected {len(exp)} events in file order, observed {len(got)}'
                          f'{" then " + repr(exc) if exc is not None else ""}; first difference at index '
                          f'{next((i for i, (a, b) in enumerate(zip(got, exp)) if a != b), min(len(got), len(exp)))}',
                          case_of(f))
        return
    tp, pn = tables
    etp, epn = wire.threadmap_model(f['entries'])
    if tp != etp or pn != epn:
        extra = sorted(set(tp) - set(etp))[:5], sorted(set(pn) - set(epn))[:5]
        res.violation('c02-tables-leftover' if (set(tp) - set(etp) or set(pn) - set(epn)) else 'c02-tables',
                      f'{where}: tables differ from the file\'s thread map (unexpected keys {extra}); '
                      f'threads_pids {dict(list(tp.items())[:6])} expected {dict(list(etp.items())[:6])}; '
                      f'pids_names {dict(list(pn.items())[:6])} expected {dict(list(epn.items())[:6])}', case_of(f))
    res.count('parses_checked')
    res.count('events_compared', len(got))


def case_of(f):
    return {'kind': f['kind'], 'file': f['data'], 'pad': f.get('pad'),
            'entries': [[e[0], e[1], e[2], e[3] if len(e) > 3 else b''] for e in f['entries']]}


def one_history(res, rng, files, api):
    """A history of parses on one parser object / one pair of dict objects."""
    from pykdebugparser.pykdebugparser import PyKdebugParser
    from pykdebugparser.kd_buf_parser import KdBufParser
    top = PyKdebugParser()
    tp, pn = {}, {}
    if api == 'dicts' and rng.random() < 0.5:
        tp.update({9999991: 77})
        pn.update({77: 'stale'})
    # a third of the histories hand over the SAME stream object every time, emptied and refilled with the next dump (a
    # scratch buffer / a temp file that is rewritten): what an object held before says nothing about what it holds now
    refilled = io.BytesIO() if len(files) > 1 and rng.random() < 0.34 else None
    # half of the 'dicts' histories keep ONE container-parser object for all their parses (the other half build one per
    # parse over the same two dicts): the dicts belong to the caller and to every other object built over them, so what
    # the object itself read last says nothing about what they hold now
    kept = KdBufParser(tp, pn) if api == 'dicts' and rng.random() < 0.5 else None
    if kept is not None:
        res.count('histories_on_one_kept_container_parser')
        if len(files) > 1 and rng.random() < 0.5:
            # ... and the same dump comes round again later in the history (kevents, then traces, then a reload)
            files = list(files) + [files[rng.randrange(len(files) - 1)]]

    def open_stream(data):
        if refilled is None:
            return wire.stream(data)
        refilled.seek(0)
        refilled.truncate(0)
        refilled.write(data)
        refilled.seek(0)
        return refilled
    if refilled is not None:
        res.count('histories_on_one_refilled_stream_object')
    for i, f in enumerate(files):
        where = f'parse {i + 1}/{len(files)} via {api} ({f["kind"]})' + (', same stream object refilled' if refilled else '')
        if i and rng.random() < 0.4:
            # between two parses the shared tables are written by their other users (the trace decoders)
            target = (top.threads_pids, top.pids_names) if api == 'top' else (tp, pn)
            target[0][rng.choice((1, 2, 77, rng.getrandbits(40)))] = rng.randrange(1, 50)
            target[1][rng.randrange(1, 50)] = 'written-between-parses'
            if api == 'dicts' and rng.random() < 0.4:
                # ... or by ANOTHER container parser built over the same two dicts, reading another dump
                other = gen.gen_v2(rng, first_nonzero=True, m=1, n=2)
                try:
                    list(KdBufParser(tp, pn).parse(io.BytesIO(other['data'])))
                except Exception:
                    pass
                res.count('tables_rewritten_by_another_parser_between_parses')
            res.count('tables_dirtied_between_parses')
        if i and api == 'top' and rng.random() < 0.4:
            # ... or REPLACES one of the two table attributes of the front end by another dict (only one of them, or
            # both): the object's tables are whatever its attributes name when the request is made
            which = rng.choice(('pids_names', 'threads_pids', 'both'))
            if which in ('pids_names', 'both'):
                top.pids_names = {} if rng.random() < 0.5 else {31337: 'assigned-between-parses'}
            if which in ('threads_pids', 'both'):
                top.threads_pids = {} if rng.random() < 0.5 else {31337: 31337}
            res.count('table_attributes_replaced_between_parses')
        if api == 'top':
            events, exc = drive(lambda: top.kevents(open_stream(f['data'])))
            tables = (top.threads_pids, top.pids_names)
        elif api == 'dicts' and f['kind'] == 'v2' and refilled is None and i % 2:
            # the version-specific entry points are public as well: parse_v2() on a stream positioned behind the magic,
            # directly or through the parser's version table
            def by_version():
                s = io.BytesIO(f['data'])
                magic = s.read(4)
                parser = KdBufParser(tp, pn)
                gen_ = parser.parse_v2(s) if i % 4 == 1 else parser.versions[magic](s)
                return (e for e in gen_ if hasattr(e, 'debugid'))
            events, exc = drive(by_version)
            tables = (tp, pn)
            res.count('parses_through_the_version_entry_points')
        else:
            events, exc = drive(lambda: (e for e in (kept or KdBufParser(tp, pn)).parse(open_stream(f['data']))
                                         if hasattr(e, 'debugid')))
            tables = (tp, pn)
        if f['kind'] == 'v2':
            check_v2_parse(res, f, events, exc, (dict(tables[0]), dict(tables[1])), where)
            res.case(f['data'], nontrivial=bool(f['records'] or f['entries']))
        else:
            if exc is not None:
                res.violation(f'c02-v3-interlude-raises-{core.exc_name(exc)}', f'{where}: {exc!r}', case_of(f))
            res.count('v3_interludes')
    # the front end's tables may be any mutable mapping the caller likes - also one whose reads have side effects (a
    # defaultdict, a Counter): listing the events with every column on (threads the map does not declare among them)
    # leaves the tables equal to the file's thread map, nothing invented
    v2 = [f for f in files if f['kind'] == 'v2' and f['records']]
    if api == 'top' and v2 and rng.random() < 0.4:
        import collections
        f = v2[-1]
        side = PyKdebugParser()
        side.threads_pids, side.pids_names = collections.defaultdict(int), collections.defaultdict(str)
        try:
            list(side.formatted_kevents(io.BytesIO(f['data'])))
        except Exception:
            pass                      # (what the listing makes of the records is judged by C02's event comparison)
        want = wire.threadmap_model(f['entries'])
        res.count('listings_on_tables_whose_reads_have_side_effects')
        if check_v2_parse is not None and (dict(side.threads_pids), dict(side.pids_names)) != (want[0], want[1]) and \
                not (f['records'] and f['records'][0][:1] == b'\x00'):
            extra = sorted(set(side.threads_pids) - set(want[0]))[:4]
            res.violation('c02-tables-invented-entries', f'front end whose tables are defaultdicts, after formatted_kevents: the '
                          f'thread table holds {len(side.threads_pids)} entries, the thread map declares {len(want[0])} (e.g. '
                          f'{extra} are not in the map)', case_of(f))
    res.count(f'histories_{api}')
    if len(files) > 1:
        res.count('histories_with_reuse')


def interleaved_parses(res, rng, kinds=('v2', 'v2'), prefix='c02'):
    """Two (or three) parses alive in one process on different dumps, their lazy generators advanced alternately (as
    zip() or heapq.merge() over several dumps does): every event still carries the fields of its own record."""
    import itertools
    from pykdebugparser.kd_buf_parser import KdBufParser
    from pykdebugparser.pykdebugparser import PyKdebugParser
    files = [gen.gen_v2(rng, first_nonzero=True, m=rng.choice((1, 2, 5, 40, 300))) if k == 'v2' else
             gen.gen_v3(rng, m=rng.choice((1, 2, 5, 40, 300)), n=2) for k in kinds]
    # the parser objects are built in every way the constructors allow (own tables, one table, none: the defaults)
    def build():
        c = rng.randrange(5)
        if c == 0:
            return PyKdebugParser()
        return (KdBufParser({}, {}), KdBufParser(), KdBufParser({}), KdBufParser(pids_names={}))[c - 1]
    parsers = [build() for _ in files]
    gens = [(p.kevents(io.BytesIO(f['data'])) if isinstance(p, PyKdebugParser) else
             (e for e in p.parse(io.BytesIO(f['data'])) if hasattr(e, 'debugid'))) for p, f in zip(parsers, files)]
    got = [[] for _ in files]
    try:
        for row in itertools.zip_longest(*gens):
            for i, e in enumerate(row):
                if e is not None:
                    got[i].append(wire.event_tuple(e))
    except Exception as x:
        res.violation(f'{prefix}-interleaved-raises-{core.exc_name(x)}', f'{len(files)} parses advanced alternately: {x!r}',
                      {'files': [f['data'] for f in files]})
        return
    for i, f in enumerate(files):
        res.case(f['data'])
        res.count('interleaved_parses')
        if got[i] != [wire.ref_tuple(r) for r in f['records']]:
            k = next((j for j, (a, b) in enumerate(zip(got[i], [wire.ref_tuple(r) for r in f['records']])) if a != b),
                     min(len(got[i]), len(f['records'])))
            res.violation(f'{prefix}-interleaved-parses', f'{len(files)} dumps parsed at the same time, their generators advanced '
                          f'alternately: event {k} of dump {i} ({f["kind"]}, {len(f["records"])} records) does not carry the '
                          f'fields of its own record', {'files': [x['data'] for x in files]})
            return
    # each parser object's tables are the thread map of the dump IT read, whatever other parser objects did meanwhile
    from props import c03
    for i, (p, f) in enumerate(zip(parsers, files) if prefix == 'c02' else ()):
        want = c03.expected_tables(f) if f['kind'] == 'v3' else wire.threadmap_model(f['entries'])
        res.count('tables_of_concurrent_parsers_checked')
        if (dict(p.threads_pids), dict(p.pids_names)) != (want[0], want[1]):
            res.violation(f'{prefix}-tables-of-another-parser', f'{len(files)} parser objects ({", ".join(type(x).__name__ for x in parsers)}) '
                          f'each read its own dump: tables of parser {i} hold {dict(list(p.threads_pids.items())[:4])} / '
                          f'{dict(list(p.pids_names.items())[:4])}, its dump\'s thread map says '
                          f'{dict(list(want[0].items())[:4])} / {dict(list(want[1].items())[:4])}',
                          {'files': [x['data'] for x in files]})
            return


def threaded_parses(res, rng, kinds=('v2', 'v2', 'v3'), prefix='c02', rounds=4):
    """Several OS threads, each parsing its own dump with its own parser object and its own stream, at the same time
    (the interpreter switches threads every few bytecodes): every thread still reads the fields of its own records and
    the thread map of its own dump."""
    import sys
    import threading
    from pykdebugparser.kd_buf_parser import KdBufParser
    from props import c03
    files = [gen.gen_v2(rng, first_nonzero=True, m=rng.choice((5, 40, 300))) if k == 'v2' else
             gen.gen_v3(rng, m=rng.choice((5, 40, 300)), n=2) for k in kinds]
    wants = [[wire.ref_tuple(r) for r in f['records']] for f in files]
    tables = [c03.expected_tables(f) if f['kind'] == 'v3' else wire.threadmap_model(f['entries']) for f in files]
    failures = []
    barrier = threading.Barrier(len(files))

    def worker(i):
        try:
            barrier.wait(timeout=30)
            for _ in range(rounds):
                p = KdBufParser({}, {})
                got = [wire.event_tuple(e) for e in p.parse(io.BytesIO(files[i]['data'])) if hasattr(e, 'debugid')]
                if got != wants[i]:
                    k = next((j for j, (a, b) in enumerate(zip(got, wants[i])) if a != b), min(len(got), len(wants[i])))
                    failures.append(f'event {k} of the dump of thread {i} ({files[i]["kind"]}, {len(wants[i])} records) does '
                                    f'not carry the fields of its own record')
                    return
                if prefix == 'c02' and (dict(p.threads_pids), dict(p.pids_names)) != (tables[i][0], tables[i][1]):
                    failures.append(f'tables of the parser of thread {i} are not the thread map of its dump')
                    return
        except Exception as x:                                       # noqa
            failures.append(f'thread {i} raised {x!r} at {core.short_tb(x)}')

    threads = [threading.Thread(target=worker, args=(i,), daemon=True) for i in range(len(files))]
    old = sys.getswitchinterval()
    sys.setswitchinterval(1e-6)
    try:
        for t in threads:
            t.start()
        for t in threads:
            t.join(timeout=300)
    finally:
        sys.setswitchinterval(old)
    if any(t.is_alive() for t in threads):
        res.inconclusive.append('concurrent parses did not finish within the watchdog')
        return
    res.count('threaded_parses', len(files) * rounds)
    if failures:
        res.violation(f'{prefix}-differs-between-concurrent-threads', f'{len(files)} OS threads each parsing its own dump with its '
                      f'own parser and stream: {failures[0]} ({len(failures)} thread(s) affected)',
                      {'files': [f['data'] for f in files]})


def deferred_parses(res, rng):
    """Two parses requested on ONE parser object (the same tables) before either generator is advanced, then consumed
    in turn: after each dump is exhausted the tables are that dump's thread map."""
    from pykdebugparser.kd_buf_parser import KdBufParser
    from pykdebugparser.pykdebugparser import PyKdebugParser
    fa = gen.gen_v2(rng, first_nonzero=True, m=rng.choice((0, 1, 5)))
    fb = gen.gen_v2(rng, first_nonzero=True, m=rng.choice((0, 1, 5)))
    top = rng.random() < 0.5
    p = PyKdebugParser() if top else KdBufParser({}, {})
    try:
        ga, gb = [(p.kevents(io.BytesIO(f['data'])) if top else p.parse(io.BytesIO(f['data']))) for f in (fa, fb)]
        for f, g in ((fa, ga), (fb, gb)):
            n = sum(1 for _ in g)
            want = wire.threadmap_model(f['entries'])
            res.count('deferred_parses_checked')
            if n != len(f['records']) or (dict(p.threads_pids), dict(p.pids_names)) != want:
                res.violation('c02-tables-of-deferred-parse', f'two parses requested up front on one {type(p).__name__}, consumed '
                              f'in turn: after dump {"AB"[f is fb]} ({n} events of {len(f["records"])}) the tables hold '
                              f'{len(p.threads_pids)} threads / {len(p.pids_names)} processes, its thread map declares '
                              f'{len(want[0])} / {len(want[1])}', {'files': [fa['data'], fb['data']]})
                return
    except Exception as x:
        res.violation(f'c02-deferred-raises-{core.exc_name(x)}', f'{x!r}', {'files': [fa['data'], fb['data']]})


def run(ctx):
    res = core.Result()
    rng = ctx.rng
    log = monitors.ContractLog()
    undo = monitors.attach_from_kd_buf_contract(log)
    try:
        n_hist = ctx.pick(150, 8000)
        for h in range(n_hist):
            k = rng.choice((1, 1, 2, 3, 4))
            files = []
            for _ in range(k):
                if rng.random() < 0.2 and k > 1:
                    files.append(gen.gen_v3(rng, m=rng.randrange(0, 6), n=rng.randrange(0, 6)))
                else:
                    files.append(gen.gen_v2(rng, first_nonzero=True))
            one_history(res, rng, files, rng.choice(('top', 'dicts')))
        # related thread maps on one object: the same tid->pid relation with other names, the same tids with other pids,
        # a subset, a superset (only the keys / only the values differ from what the tables already hold)
        for h in range(ctx.pick(40, 1200)):
            base = gen.gen_threadmap(rng, rng.choice((1, 2, 3, 6)))
            files = []
            for step in range(rng.randrange(2, 5)):
                kind = rng.choice(('same', 'renamed', 'repid', 'subset', 'superset'))
                entries = list(base)
                if kind == 'renamed':
                    entries = [(t, p, rng.choice(gen.NAMES), j) for t, p, n, j in entries]
                elif kind == 'repid':
                    entries = [(t, rng.randrange(1, 60), n, j) for t, p, n, j in entries]
                elif kind == 'subset':
                    entries = entries[:max(0, len(entries) - 1)]
                elif kind == 'superset':
                    entries = entries + gen.gen_threadmap(rng, 1)
                recs = gen.gen_records(rng, rng.randrange(0, 4), first_nonzero=True)
                pad = rng.choice((0, 8))
                files.append({'kind': 'v2', 'entries': entries, 'pad': pad, 'records': recs,
                              'data': wire.v2_file(entries, pad, recs)})
            one_history(res, rng, files, rng.choice(('top', 'dicts')))
            res.count('related_map_histories')
        # stratified shapes: every padding x small m, records beginning with zero bytes at positions >= 2
        for pad in (0, 1, 7, 8, 63, 64, 65, 127, 128, 4096):
            for m in (0, 1, 2, 3):
                entries = gen.gen_threadmap(rng, rng.choice((0, 1, 3)))
                recs = [gen.nonzero_lead(gen.gen_record(rng))] + [gen.gen_record(rng, 'zero_lead') for _ in range(m)]
                recs = recs[:m] if m == 0 else recs
                if m >= 2 and rng.random() < 0.5:
                    recs[1] = bytes(64)
                f = {'kind': 'v2', 'entries': entries, 'pad': pad, 'records': recs,
                     'data': wire.v2_file(entries, pad, recs)}
                one_history(res, rng, [f], 'top')
                one_history(res, rng, [f], 'dicts')
                res.count('stratified_files')
        # dedicated class of the open finding: a first record that begins with zero bytes
        for j in ctx.pick((1, 2, 8, 63), (1, 2, 3, 7, 8, 9, 31, 32, 40, 63)):
            for m in (1, 2, 5):
                first = bytes(j) + bytes([rng.randrange(1, 256)]) + rng.randbytes(63 - j)
                recs = [first] + [gen.gen_record(rng, 'random') for _ in range(m - 1)]
                entries = gen.gen_threadmap(rng, 2)
                pad = rng.choice((0, 8, 64))
                f = {'kind': 'v2', 'entries': entries, 'pad': pad, 'records': recs,
                     'data': wire.v2_file(entries, pad, recs)}
                one_history(res, rng, [f], 'top')
                res.count('zero_leading_first_record_files')
        for _ in range(ctx.pick(12, 300)):
            deferred_parses(res, rng)
            interleaved_parses(res, rng, rng.choice((('v2', 'v2'), ('v2', 'v3'), ('v3', 'v3'), ('v2', 'v2', 'v3'))))
            threaded_parses(res, rng, rng.choice((('v2', 'v2'), ('v2', 'v3'), ('v3', 'v3'), ('v2', 'v2', 'v3'))))
        # large dumps: record counts beyond 8- and 16-bit limits, thread maps of hundreds of entries
        for m in ctx.pick((300, 5000), (70000, 300, 66000)):
            entries = [(rng.getrandbits(64), rng.getrandbits(32), rng.choice(gen.NAMES), b'') for _ in range(rng.choice((300, 1000)))]
            recs = gen.gen_records(rng, m, first_nonzero=True)
            f = {'kind': 'v2', 'entries': entries, 'pad': rng.choice((0, 4096)), 'records': recs}
            f['data'] = wire.v2_file(entries, f['pad'], recs)
            one_history(res, rng, [f], rng.choice(('top', 'dicts')))
            res.count('large_files')
        # ambiguous files: all-zero first record(s)
        for z in (1, 2):
            recs = [bytes(64)] * z + [gen.nonzero_lead(gen.gen_record(rng, 'random'))]
            f = {'kind': 'v2', 'entries': [], 'pad': 8, 'records': recs, 'data': wire.v2_file([], 8, recs)}
            one_history(res, rng, [f], 'top')
            res.count('ambiguous_files')
    finally:
        undo()
    res.count('contract_evaluations', log.evaluations)
    for key, what, case in log.failures:
        res.violation(key, 'contract on from_kd_buf: ' + what, case)
    f = gen.gen_v2(core.Ctx('C02', ctx.tier, ctx.seed).rng, m=2, n=2)
    res.sample({'entries': [[e[0], e[1], e[2].decode()] for e in f['entries']], 'pad': f['pad'],
                'records_hex': [r.hex() for r in f['records']], 'file_len': len(f['data'])})
    res.sample({'history': 'v2, v3, v2 parsed with one PyKdebugParser; tables compared with the last v2 map only'})
    res.assumptions += ['thread-map names are valid UTF-8 of at most 19 bytes without NUL',
                        'a file that is byte-identical under two decompositions (all-zero leading records vs '
                        'padding) is accepted under either']
    res.require('parses_checked', 10)
    res.require('histories_with_reuse', 1)
    res.require('related_map_histories', 10)
    res.require('interleaved_parses', 10)
    res.require('parses_through_the_version_entry_points', 10)
    res.require('table_attributes_replaced_between_parses', 10)
    res.require('listings_on_tables_whose_reads_have_side_effects', 10)
    res.require('histories_on_one_refilled_stream_object', 10)
    res.require('threaded_parses', 6)
    res.require('deferred_parses_checked', 10)
    res.require('contract_evaluations', 1)
    return res


def replay(case, ctx):
    res = core.Result()
    entries = [tuple(e) for e in case['entries']]
    f = {'kind': case['kind'], 'entries': entries, 'pad': case.get('pad') or 0, 'records': [], 'data': case['file']}
    rng = ctx.rng
    one_history(res, rng, [f], 'top')
    one_history(res, rng, [f], 'dicts')
    return res
