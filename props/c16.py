"""C16 - log records decode for every combination of optional fields.

Monitor: raw records built from the field table (mandatory keys + subsets of the 31 optional keys, decomposed
messages from a small grammar, every defined trace-identifier word) go through the real
OsLogEvent.from_raw_log_event (and, end to end, through a v3 file); a reference decoder written from the field
table (vlib.logs) is run in lock-step and every field is compared; decoding must never raise.
"""
import io
import itertools
import plistlib

from vlib import core, gen, logs, wire

LEVEL = 'exploration'
RULE = ('records = mandatory keys + {empty, every single, every pair, all 31} subsets of the optional keys + random subsets; '
        'decomposed messages from a grammar (any subset of prefix/placeholder/argument and of their inner optional keys); '
        'trace identifiers = all namespaces x defined types x all 64 flag-byte combinations x flag values (zero, singles, '
        'combinations) x sampled codes; non-trivial = record decoded and compared field by field with the reference; '
        'distinct = distinct (key set, values) records')
QUICK_SHARDS = 4
THOROUGH_SHARDS = 16


INDEX_TURN = [0]


def string_index(inv):
    """The string index in one of the kinds of object a caller may hold it in - the decoder only ever subscripts it: a
    plain dict, a read-only view, a UserDict, a table that is filled lazily (dict subclass with __missing__), a tuple
    indexed by string id."""
    import collections
    import types
    INDEX_TURN[0] += 1
    k = INDEX_TURN[0] % 7
    if k == 3:
        return types.MappingProxyType(inv)
    if k == 4:
        return collections.UserDict(inv)
    if k == 5:
        class Lazy(dict):
            def __missing__(self, key):
                return inv[key]
        return Lazy()
    if k == 6 and inv and all(isinstance(i, int) and 0 <= i < 5000 for i in inv):
        seq = [None] * (max(inv) + 1)
        for i, text in inv.items():
            seq[i] = text
        return tuple(seq)
    return inv


KEYWORD_TURN = [0]


def decode(res, raw, inv, label):
    from pykdebugparser.os_log_event import OsLogEvent
    def case():
        used = {}
        def walk(x):
            if isinstance(x, dict):
                for v in x.values():
                    walk(v)
            elif isinstance(x, list):
                for v in x:
                    walk(v)
            elif isinstance(x, int) and x in inv:
                used[str(x)] = inv[x]
        walk(raw)
        return {'raw': raw, 'strings': used}
    try:
        KEYWORD_TURN[0] += 1
        got = OsLogEvent.from_raw_log_event(event=logs.fresh(raw), log_strings=string_index(inv)) if KEYWORD_TURN[0] % 7 == 0 \
            else OsLogEvent.from_raw_log_event(logs.fresh(raw), string_index(inv))
    except Exception as x:
        where = core.short_tb(x, 1)
        key = f'c16-raises-{core.exc_name(x)}-{where[-1] if where else "?"}'
        res.violation(key, f'{label}: decoding raised {x!r}; optional keys present: {sorted(k for k in raw if k in logs.OPTIONAL_KEYS)}',
                      case())
        return None
    bad = logs.compare(got, logs.ref_decode(raw, inv))
    if bad:
        res.violation('c16-field-' + bad[0][0].split('.')[0], f'{label}: {[(b[0], str(b[1])[:80], str(b[2])[:80]) for b in bad[:4]]}',
                      case())
        return None
    res.count('records_compared')
    if len(RETAINED) < 30000:
        RETAINED.append((got, raw, inv, label))
    return got


RETAINED = []     # every decoded record is kept and compared again at the end: nothing reported may change later


def recheck_retained(res):
    for got, raw, inv, label in RETAINED:
        bad = logs.compare(got, logs.ref_decode(raw, inv))
        res.count('records_rechecked_at_end')
        if bad:
            res.violation('c16-decoded-record-changed-later', f'{label}: a record that compared equal right after decoding '
                          f'differs after later records were decoded: {[(b[0], str(b[1])[:60], str(b[2])[:60]) for b in bad[:3]]}',
                          {'raw': raw, 'strings': {str(k): v for k, v in list(inv.items())[:200]}})
            return


def subsets_workload(res, ctx, rng):
    strings = logs.Strings(rng)
    keys = logs.OPTIONAL_KEYS
    todo = [(), tuple(keys)] + [(k,) for k in keys] + list(itertools.combinations(keys, 2))
    for _ in range(ctx.pick(3000, 1000000) // ctx.nshards):
        todo.append(tuple(k for k in keys if rng.random() < rng.choice((0.1, 0.3, 0.5, 0.8))))
    for i, subset in enumerate(todo):
        if i < 2 + len(keys) + len(keys) * (len(keys) - 1) // 2 and not ctx.mine(i):
            continue
        raw = logs.gen_event(rng, strings, subset)
        res.case((subset, repr(sorted(raw.items(), key=lambda kv: kv[0]))))
        decode(res, raw, strings.inverted(), f'optional keys {list(subset)[:6]}{"..." if len(subset) > 6 else ""}')
        res.count(f'subset_size_{min(len(subset), 3) if len(subset) < 31 else "all"}')


def boundary_workload(res, ctx, rng):
    """Values at the edges of their ranges, zeros where code might test truthiness, empty lists versus missing keys."""
    strings = logs.Strings(rng)
    empty = strings.idx('')
    # ... and the instants around the daylight-saving transitions of the zones the shards run under (the hour that a local
    # clock shows twice, the hour it skips): 2021 in the US Pacific zone and in New Zealand
    dst = [t + d for t in (1636275600, 1615716000, 1617458400, 1632578400) for d in (-3600, -1800, -1, 0, 1, 1800, 3599, 3600)]
    for sec in [0, 1, (1 << 31) - 1, 86399, 1600000000] + dst:
        for usec in (0, 1, 499999, 500000, 999999):
            raw = logs.gen_event(rng, strings, ())
            raw['ud'] = {'sec': sec, 'usec': usec}
            res.case(('ud', sec, usec))
            decode(res, raw, strings.inverted(), f'unix date sec={sec} usec={usec}')
            res.count('boundary_records')
    zero_like = {'sio': 0, 'ttl': 0, 'pid': 0, 'aid': 0, 'paid': 0, 'tai': 0, 'cai': 0, 'cpui': 0, 'si': 0, 'st': 0, 'ss': 0,
                 'lsmct': 0, 'lemct': 0, 'lt': 0, 'siu': b'', 'bt': [], 'lsud': {}, 'leud': {}, 'ti': 0,
                 'p': empty, 'sub': empty, 'cat': empty, 'f': empty, 'sn': empty, 'pip': empty, 'send': empty, 'sip': empty,
                 'lc': {'c': 0, 's': 0}, 'lsutz': {'mw': 0, 'dt': 0}, 'leutz': {'mw': 0, 'dt': 0},
                 'dm': {'pc': 0, 's': 0}}
    for k, v in zero_like.items():
        raw = logs.gen_event(rng, strings, ())
        raw[k] = v
        res.case(('zero', k))
        decode(res, raw, strings.inverted(), f'optional key {k} present with a zero / empty value')
        res.count('boundary_records')
    raw = logs.gen_event(rng, strings, ())
    raw.update(zero_like)
    raw['tid'] = 0
    raw['mct'] = 0
    raw['ns'] = 0
    decode(res, raw, strings.inverted(), 'every optional key present with a zero / empty value')
    for big in ((1 << 31) - 1, 1 << 31, (1 << 32) - 1, 1 << 32, (1 << 63) - 1):
        raw = logs.gen_event(rng, strings, ())
        for k in ('sio', 'ttl', 'pid', 'aid', 'paid', 'tai', 'cai', 'cpui', 'si', 'lsmct', 'lemct', 'mct', 'ns', 'tid'):
            raw[k] = big
        res.case(('big', big))
        decode(res, raw, strings.inverted(), f'integer fields at {hex(big)}')
        res.count('boundary_records')
    for seg in ({'p': {'w': 0, 'p': 0, 't': []}}, {'p': {'w': 0, 'p': 0}}, {'a': {'a': 0, 'c': 0, 'or': 0}}, {'a': {'a': 3, 'c': 2, 'or': empty}},
                {'a': {'c': 1, 'sc': 0, 'st': 0}}, {'lp': empty}, {}):
        raw = logs.gen_event(rng, strings, ())
        raw['dm'] = {'pc': 1, 's': 0, 'seg': [seg]}
        res.case(('seg', repr(seg)))
        decode(res, raw, strings.inverted(), f'segment {seg}')
        res.count('boundary_records')


def dm_workload(res, ctx, rng):
    strings = logs.Strings(rng)
    for full in (True, False):
        raw = logs.gen_event(rng, strings, ())
        raw['dm'] = logs.gen_dm(rng, strings, full)
        decode(res, raw, strings.inverted(), f'decomposed message full={full}')
    # every subset of the argument's inner keys
    for combo in itertools.product((False, True), repeat=6):
        for cat in (0, 1, 2, 3):
            a = {}
            for present, (k, v) in zip(combo, (('a', rng.choice((0, 3))), ('p', 1), ('c', cat), ('sc', 2), ('st', 5),
                                               ('or', strings.idx('object') if cat == 2 else 99))):
                if present:
                    a[k] = v
            if 'or' in a and a.get('c') != 2:
                a['or'] = 99
            seg = {'a': a}
            raw = logs.gen_event(rng, strings, ())
            raw['dm'] = {'pc': 1, 's': 0, 'seg': [seg]}
            res.case(('dm-arg', combo, cat))
            decode(res, raw, strings.inverted(), f'argument segment with keys {sorted(a)}')
            res.count('argument_key_subsets')
    for combo in itertools.product((False, True), repeat=4):
        p = {'w': 1, 'p': 2}
        for present, (k, v) in zip(combo, (('rs', strings.idx('%d')), ('t', [strings.idx('public')]),
                                           ('tn', strings.idx('ns')), ('ty', strings.idx('int')))):
            if present:
                p[k] = v
        for lp in (False, True):
            seg = {'p': p}
            if lp:
                seg['lp'] = strings.idx('prefix ')
            raw = logs.gen_event(rng, strings, ())
            raw['dm'] = {'pc': 2, 's': 1, 'seg': [seg, {}]}
            res.case(('dm-ph', combo, lp))
            decode(res, raw, strings.inverted(), f'placeholder segment with keys {sorted(p)}')
            res.count('placeholder_key_subsets')
    # large structures: dozens of segments, deep backtraces, long token lists
    for n in (20, 64, 300):
        raw = logs.gen_event(rng, strings, ['bt'])
        raw['dm'] = {'pc': n, 's': 2, 'seg': [logs.gen_segment(rng, strings) for _ in range(n)]}
        raw['bt'] = [{'iu': rng.randbytes(16), 'io': rng.getrandbits(40)} for _ in range(n)]
        for seg in raw['dm']['seg'][:3]:
            if 'p' in seg:
                seg['p']['t'] = [strings.idx(logs.rand_text(rng)) for _ in range(n)]
        res.case(('dm-large', n))
        decode(res, raw, strings.inverted(), f'decomposed message with {n} segments')
        res.count('large_records')
    for _ in range(ctx.pick(300, 20000) // ctx.nshards):
        raw = logs.gen_event(rng, strings, ())
        raw['dm'] = logs.gen_dm(rng, strings)
        res.case(repr(raw['dm']))
        decode(res, raw, strings.inverted(), 'random decomposed message')
        res.count('random_decomposed_messages')


def ti_workload(res, ctx, rng):
    strings = logs.Strings(rng)
    base = logs.gen_event(rng, strings, ())
    inv = strings.inverted()
    n = 0
    for ns in logs.NAMESPACES:
        if ns in logs.NS_TYPES:
            types = list(logs.NS_TYPES[ns])
        elif ns == 6:
            types = [k | s for k in logs.SIGNPOST_KINDS for s in logs.SIGNPOST_SCOPES + (0,)]
        else:
            types = [0, 1, 0x7f, 0xff]
        if ns == 4:
            flag_values = [sum(c) for r in range(0, 6) for c in itertools.combinations(logs.LOG_FLAG_BITS, r)]
        elif ns in (3, 6):
            flag_values = [0] + list(logs.SIGNPOST_FLAG_BITS) + [3, 0x81, 0x9f, 0x1f]
        else:
            flag_values = [0, 1, 0xff]
        for ty in types:
            for tf in range(64):
                for fl in (flag_values if tf % 8 == 0 or ctx.thorough else flag_values[:3]):
                    n += 1
                    if not ctx.mine(n):
                        continue
                    word = logs.pack_ti(ns, ty, tf | rng.choice((0, 0, 0x40, 0xc0)), fl, rng.choice((0, 1, rng.getrandbits(32), 0xffffffff)))
                    raw = dict(base)
                    raw['ti'] = word
                    res.case(('ti', word))
                    got = decode(res, raw, inv, f'trace identifier {hex(word)} (namespace {logs.NAMESPACES[ns]}, type {ty}, '
                                                f'trace flags {tf:#x}, flags {fl:#x})')
                    res.count('trace_identifier_words')
                    if got is not None:
                        ti = got.trace_identifier
                        # re-pack from the decoded fields: equals the word on the bits those fields cover
                        o = logs.observe_ti(ti)
                        re_tf = (o['has_current_aid'] | (o['pc_style'] << 1) | (o['has_unique_pid'] << 4) | (o['has_large_offset'] << 5))
                        repacked = logs.pack_ti(o['namespace'], o['type'], re_tf, o['flags'] or 0, o['code'])
                        mask = 0xffffffff003fffff | (0xff000000 if o['flags'] is not None else 0)
                        if repacked & mask != word & mask:
                            res.violation('c16-ti-repack', f'{hex(word)} re-packs to {hex(repacked)} from the decoded fields',
                                          {'word': word})


def alias_workload(res, ctx, rng):
    """Records that share parts of their values (same low half of the trace identifier with different codes, same
    string ids, same nested dicts) decoded one after the other and all kept."""
    strings = logs.Strings(rng)
    for _ in range(ctx.pick(40, 600)):
        low = logs.gen_ti(rng) & 0xffffffff
        shared_dm = logs.gen_dm(rng, strings)
        for code in (1, 0xffffffff, rng.getrandbits(32), 0):
            raw = logs.gen_event(rng, strings, [k for k in ('p', 'sub', 'bt', 'lc') if rng.random() < 0.5])
            raw['ti'] = low | (code << 32)
            raw['dm'] = logs.fresh(shared_dm)
            res.case(('alias', raw['ti'], repr(raw['dm'])))
            decode(res, raw, strings.inverted(), f'trace identifier {hex(raw["ti"])} sharing its low word with other records')
            res.count('aliasing_records')


def shared_objects_workload(res, ctx, rng):
    """Records whose nested values are the SAME Python objects (what plistlib returns for a binary plist that references
    one object several times): the decoder gets a shallow copy of each record, so the nested time-zone / message /
    backtrace dictionaries are shared between records and between fields of one record."""
    from pykdebugparser.os_log_event import OsLogEvent
    strings = logs.Strings(rng)
    for _ in range(ctx.pick(30, 600)):
        raws = [logs.gen_event(rng, strings, [k for k in logs.OPTIONAL_KEYS if k != 'tai' and rng.random() < 0.5])
                for _ in range(rng.randrange(2, 5))]
        shared = {k: logs.fresh(next((r[k] for r in raws if k in r), None)) for k in ('utz', 'dm', 'bt')}
        for r in raws:
            for k in ('utz', 'dm', 'bt'):
                if k in r and shared[k] is not None and rng.random() < 0.7:
                    r[k] = shared[k]
            for k in ('lsutz', 'leutz'):
                if k in r and rng.random() < 0.7:
                    r[k] = r['utz']
        inv = strings.inverted()
        expected = [logs.ref_decode(logs.fresh(r), inv) for r in raws]
        for i, (r, exp) in enumerate(zip(raws, expected)):
            res.case(('shared', i, repr(r)))
            try:
                got = OsLogEvent.from_raw_log_event(dict(r), inv)       # shallow: nested objects stay shared
            except Exception as x:
                res.violation(f'c16-raises-{core.exc_name(x)}-shared-objects', f'record {i} of {len(raws)} records that share '
                              f'nested objects: {x!r}', {'raws': raws})
                break
            bad = logs.compare(got, exp)
            res.count('records_sharing_nested_objects')
            if bad:
                res.violation('c16-field-' + bad[0][0].split('.')[0], f'record {i} of {len(raws)} records that share nested '
                              f'objects (as a binary plist loads them): {[(b[0], str(b[1])[:80], str(b[2])[:80]) for b in bad[:4]]}',
                              {'raws': raws})
                break


def threaded_decodes(res, ctx, rng, n_threads=4, per_thread=120, rounds=2):
    """Several OS threads decode log records at the same time, each its own records with its own string table (the
    interpreter switches threads every few bytecodes).  Every record still decodes to the fields of its own values."""
    import sys
    import threading
    from pykdebugparser.os_log_event import OsLogEvent
    work = []
    shared_seconds = [rng.randrange(1, 1 << 31) for _ in range(5)]
    for k in range(n_threads):
        strings = logs.Strings(rng)
        raws = []
        site_words = [logs.gen_ti(rng) for _ in range(5)]
        for i in range(per_thread):
            raw = logs.gen_event(rng, strings, rng.choice((['p', 'pid', 'ti'], ['ti', 'dm'], ['p', 'pid', 'ti', 'dm', 'send'])))
            if i % 2:
                # records of one burst carry the same second (and the other threads are decoding that second too)
                raw['ud'] = dict(raw['ud'], sec=shared_seconds[(i // 2) % len(shared_seconds)])
            if 'ti' in raw and i % 3:
                # neighbouring records of one call site carry the same identifier word; other threads carry other words
                raw['ti'] = site_words[(i // 7) % len(site_words)]
            raws.append(raw)
        work.append((raws, strings.inverted()))
    failures = []
    barrier = threading.Barrier(n_threads)

    def worker(k):
        raws, inv = work[k]
        try:
            barrier.wait(timeout=30)
            for _ in range(rounds):
                for raw in raws:
                    got = OsLogEvent.from_raw_log_event(logs.fresh(raw), inv)
                    bad = logs.compare(got, logs.ref_decode(raw, inv))
                    if bad:
                        failures.append((k, raw, inv, bad))
                        return
        except Exception as x:                                        # noqa
            failures.append((k, None, None, [(f'raised {x!r} at {core.short_tb(x)}', '', '')]))

    threads = [threading.Thread(target=worker, args=(k,), daemon=True) for k in range(n_threads)]
    old = sys.getswitchinterval()
    sys.setswitchinterval(1e-6)
    try:
        for t in threads:
            t.start()
        for t in threads:
            t.join(timeout=300)
    finally:
        sys.setswitchinterval(old)
    if any(t.is_alive() for t in threads):
        res.inconclusive.append('concurrent decodes did not finish within the watchdog')
        return
    res.count('records_decoded_by_concurrent_threads', n_threads * per_thread * rounds)
    if failures:
        k, raw, inv, bad = failures[0]
        res.violation('c16-differs-between-concurrent-threads', f'{n_threads} OS threads decoding their own records at the same '
                      f'time: a record of thread {k} decoded to {[(b[0], str(b[1])[:80], str(b[2])[:80]) for b in bad[:3]]}',
                      {'raw': raw, 'strings': {str(a): b for a, b in list((inv or {}).items())[:200]}} if raw else {})


def end_to_end(res, ctx, rng):
    """The same records through a v3 file and the container parser."""
    from pykdebugparser.kd_buf_parser import KdBufParser
    from pykdebugparser.os_log_event import OsLogEvent
    for _ in range(ctx.pick(20, 300) // ctx.nshards + 1):
        strings = logs.Strings(rng)
        raws = [logs.gen_event(rng, strings, [k for k in logs.OPTIONAL_KEYS if rng.random() < 0.4]) for _ in range(rng.randrange(1, 5))]
        blocks = [(wire.TAG_LOG_EVENTS, plistlib.dumps({'Events': raws}, fmt=plistlib.FMT_BINARY)),
                  (wire.TAG_LOG_STRINGS, plistlib.dumps(strings.plist(), fmt=plistlib.FMT_BINARY))]
        if rng.random() < 0.5:
            blocks.reverse()
        data = wire.V3Spec(chunks=[[]], blocks=blocks).build()
        try:
            got = [x for x in KdBufParser({}, {}).parse(io.BytesIO(data)) if isinstance(x, OsLogEvent)]
        except Exception as x:
            res.violation(f'c16-v3-raises-{core.exc_name(x)}', f'v3 file with {len(raws)} log records: {x!r}', {'file': data})
            continue
        res.case(data)
        if len(got) != len(raws):
            res.violation('c16-v3-count', f'{len(got)} of {len(raws)} records', {'file': data})
            continue
        for g, raw in zip(got, raws):
            bad = logs.compare(g, logs.ref_decode(raw, strings.inverted()))
            if bad:
                res.violation('c16-field-' + bad[0][0].split('.')[0], f'through a v3 file: {bad[:3]}', {'file': data})
                break
        res.count('records_through_v3', len(got))


def shared_section_parser(res, ctx, rng):
    """ONE container-parser object reads several v3 dumps whose generators are alive at the same time and advanced in turns
    (one object kept for a session, dumps compared side by side): the string tables give DIFFERENT texts to the same
    indices, and every record is still decoded through the index of its own dump.  Also the same dumps one after the
    other on that object, the first generator abandoned half way."""
    import copy
    import itertools
    from pykdebugparser.kd_buf_parser import KdBufParser
    from pykdebugparser.os_log_event import OsLogEvent
    for _ in range(ctx.pick(12, 150) // ctx.nshards + 1):
        strings = logs.Strings(rng)
        n_dumps = rng.choice((2, 2, 3))
        raws = [[logs.gen_event(rng, strings, [k for k in logs.OPTIONAL_KEYS if rng.random() < 0.4])
                 for _ in range(rng.randrange(2, 6))] for _ in range(n_dumps)]
        base = dict(strings.inverted())
        tables = [{i: f'{"ABC"[d]}:{t}' for i, t in base.items()} for d in range(n_dumps)]
        datas = []
        for d in range(n_dumps):
            blocks = [(wire.TAG_LOG_EVENTS, plistlib.dumps({'Events': raws[d]}, fmt=plistlib.FMT_BINARY)),
                      (wire.TAG_LOG_STRINGS, logs.dumps_index({'StringIndex': {t: i for i, t in tables[d].items()}}, rng))]
            if rng.random() < 0.5:
                blocks.reverse()
            recs = gen.gen_records(rng, rng.choice((0, 0, 1, 3))) if rng.random() < 0.5 else []
            datas.append(wire.V3Spec(chunks=[recs], blocks=blocks).build())
        case = {'files': datas}
        parser = KdBufParser({}, {})
        mode = rng.choice(('in turns', 'in turns', 'first abandoned half way'))
        got = [[] for _ in datas]
        try:
            if mode == 'in turns':
                gens = [(x for x in parser.parse(wire.stream(d)) if isinstance(x, OsLogEvent)) for d in datas]
                order = list(range(n_dumps))
                for row in itertools.zip_longest(*gens):
                    for i in order:
                        if row[i] is not None:
                            got[i].append(row[i])
            else:
                first = (x for x in parser.parse(wire.stream(datas[0])) if isinstance(x, OsLogEvent))
                got[0].append(next(first))
                for i in range(1, n_dumps):
                    got[i] = [x for x in parser.parse(wire.stream(datas[i])) if isinstance(x, OsLogEvent)]
                got[0] += list(first)
        except Exception as x:
            res.violation(f'c16-shared-parser-raises-{core.exc_name(x)}', f'one parser object, {n_dumps} v3 dumps read {mode}: '
                          f'{x!r} at {core.short_tb(x)}', case)
            continue
        res.case(tuple(datas))
        for i in range(n_dumps):
            if len(got[i]) != len(raws[i]):
                res.violation('c16-v3-count', f'one parser object, {n_dumps} v3 dumps read {mode}: {len(got[i])} of '
                              f'{len(raws[i])} records of dump {i}', case)
                break
            bad = None
            for g, raw in zip(got[i], raws[i]):
                bad = logs.compare(g, logs.ref_decode(raw, tables[i]))
                if bad:
                    break
            if bad:
                res.violation('c16-field-' + bad[0][0].split('.')[0] + '-of-another-dump', f'one parser object, {n_dumps} v3 dumps '
                              f'whose string tables give different texts to the same indices, read {mode}: dump {i}: {bad[:3]}', case)
                break
            res.count('records_through_a_shared_section_parser', len(got[i]))


def run(ctx):
    res = core.Result()
    # the decoded instants are UTC instants whatever the local zone of the decoding process is
    import os
    import time
    zone = ('UTC', 'PST8PDT,M3.2.0,M11.1.0', 'NZST-12NZDT,M9.5.0,M4.1.0/3', 'IST-5:30')[(ctx.shard + ctx.seed) % 4]
    os.environ['TZ'] = zone
    time.tzset()
    res.notes['process_time_zone'] = zone
    res.count('shards_in_zone_' + zone.split(',')[0])
    rng = ctx.rng
    logs.WITH_LINE_BREAKS[0] = True       # fields are compared, not printed lines
    subsets_workload(res, ctx, rng)
    if ctx.shard == 0:
        # the boundary instants (DST transitions of every zone among them) under EVERY process zone, not only this shard's
        for z in ('UTC', 'PST8PDT,M3.2.0,M11.1.0', 'NZST-12NZDT,M9.5.0,M4.1.0/3', 'IST-5:30'):
            os.environ['TZ'] = z
            time.tzset()
            boundary_workload(res, ctx, rng)
            res.count('boundary_workloads_under_zone_' + z.split(',')[0])
        os.environ['TZ'] = zone
        time.tzset()
    dm_workload(res, ctx, rng)
    ti_workload(res, ctx, rng)
    alias_workload(res, ctx, rng)
    shared_objects_workload(res, ctx, rng)
    for _ in range(ctx.pick(2, 10)):
        threaded_decodes(res, ctx, rng)
    end_to_end(res, ctx, rng)
    shared_section_parser(res, ctx, rng)
    recheck_retained(res)
    if ctx.shard == 0:
        r = core.Ctx('C16', ctx.tier, ctx.seed).rng
        s = logs.Strings(r)
        raw = logs.gen_event(r, s, ['p', 'pid', 'ti', 'dm'])
        res.sample({'raw': raw, 'strings': {str(k): v for k, v in s.inverted().items()}})
        res.sample({'trace_identifier_word': hex(logs.pack_ti(4, 0x10, 0x2b, 0x3, 0xdeadbeef)),
                    'reference': logs.ref_ti(logs.pack_ti(4, 0x10, 0x2b, 0x3, 0xdeadbeef))})
    res.assumptions += ['values are in range: sec < 2^31 (float->microsecond conversion exact), integers < 2^63',
                        'key -> field table and defaults of vlib/logs.py (typed from the record format)',
                        'for namespaces whose flag byte is not decoded the repack oracle does not cover that byte']
    res.require('records_compared', 500)
    res.require('trace_identifier_words', 200)
    res.require('argument_key_subsets', 64)
    res.require('records_through_v3', 5)
    res.require('records_through_a_shared_section_parser', 10)
    res.require('records_decoded_by_concurrent_threads', 1000)
    return res


def replay(case, ctx):
    res = core.Result()
    if 'raw' in case:
        inv = {int(k): v for k, v in case['strings'].items()}
        decode(res, case['raw'], inv, 'replay')
    return res
