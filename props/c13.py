"""C13 - trace filters commute with decoding and leave no residue in the parser.

Monitor: generated dumps are decoded by the real front-end without filters and under combinations of thread /
process / class / BSD-subclass filters, in request histories of 2-4 repeated traces / formatted_traces / callstacks
calls on one parser object.  Oracle: filtered output == unfiltered output restricted to the traces whose first
event satisfies the user's filter (own model), same order and text; helper classes are never shown unless
requested by class or subclass; request i == request 1; the caller's filter attributes are unchanged.
"""
import copy
import io

from vlib import core, ev, wire, gen, domain, histories as H
from props import c14

LEVEL = 'exploration'
RULE = ('dumps = scenario content on 2-3 threads/processes; configurations = tid x class lists x subclass lists (incl. BSD '
        'class/subclass, helper classes requested explicitly, the lookup subclass 0x0301, lists and tuples) and process '
        'filters (name / pid string) on static-map dumps; histories = 2-4 repeated requests (traces, formatted_traces, '
        'callstacks) on one parser object, same and different files; non-trivial = configuration whose filtered output '
        'was compared with the restricted unfiltered output; distinct = distinct (dump, configuration, history)')
QUICK_SHARDS = 8
THOROUGH_SHARDS = 16
STATIC_KINDS = ('syscall', 'syscall', 'path', 'path', 'gstring', 'fault', 'launch', 'threadname')


def gen_dump(rng, static_map):
    tids = (11, 12, 13)[:rng.choice((2, 3))]
    programs = []
    for k, tid in enumerate(tids):
        keyspace = {'tid': tid, 'pid': 100 * (k + 1), 'sid': 1000 * (k + 1)}
        prog = []
        for _ in range(rng.randrange(2, 5)):
            prog += H.scenario(rng, keyspace, kinds=STATIC_KINDS if static_map else None, private_keys=True)
        programs.append(prog)
    all_tids = list(tids)
    if rng.random() < 0.5:
        # a thread the dump never declares (its lines read 'Error: tid ...'), doing ordinary calls; reaper-style terminate
        # records of declared threads name it (they declare nothing)
        prog = []
        for _ in range(rng.randrange(1, 4)):
            prog += H.scenario(rng, {'tid': 99, 'pid': 900, 'sid': 9000}, kinds=('syscall', 'path', 'single'), private_keys=True)
        programs.append(prog)
        all_tids.append(99)
        for t in range(len(tids)):
            if rng.random() < 0.6:
                programs[t].insert(rng.randrange(len(programs[t]) + 1),
                                   H.A('TRACE_DATA_THREAD_TERMINATE', H.NONE, (99, 0, 0, 0)))
    order = H.random_interleaving(rng, programs)
    events = H.materialize([(all_tids[t], programs[t][i]) for t, i in order], t0=0x100000001)
    # the thread map declares the same pid the thread's own records (sampler thread data, terminate-pid) carry, so
    # that dropping records of a non-requested class cannot change the tables a requested decoder reads
    entries = [(tid, 100 * (i + 1), b'proc%d' % i, b'') for i, tid in enumerate(tids)]
    if rng.random() < 0.35:
        # a process whose NAME is a number (names are taken verbatim from the map): the pid of another process of the dump,
        # a thread id, its own pid + 1 - a filter value names a process by its id OR by its name, whatever either looks like
        k = rng.randrange(len(entries))
        entries[k] = (entries[k][0], entries[k][1], str(rng.choice((100 * ((k + 1) % len(entries) + 1), 11, 101, 0, 12, 10))).encode(), b'')
    data = wire.v2_file(entries, 8, gen.events_to_records(events))
    return {'data': data, 'events': events, 'entries': entries, 'static_map': static_map}


def gen_config(rng, dump, with_process):
    tid = rng.choice((None, None, 11, 12, 99, 0))
    classes = rng.choice(([], [], [4], [1], [4, 7], [4, 3], [0x1f], [0x25, 1], [7], [3], [1, 4, 0x1f, 0x25],
                          [4, 4], [0xff], [200, 4], [0], [4, 0x40c]))
    subs = rng.choice(([], [], [], [0x40c], [0x40c, 0x0301], [0x0301], [0x10c], [0x0701], [0x1f07, 0x40c], [0x140],
                       [0x40c, 0x40c], [0x04], [0x40c00], [0x0700], [0xffff], [0x401, 0x40c], [0x4ff, 0x40c, 0x401]))
    as_tuple = rng.random() < 0.25
    proc = rng.choice((None, None, 'proc0', 'proc1', '100', '200', '101', 'nosuch', 'proc', 'roc1', '10', '', 'launchd',
                       'Safari', 'kernel_task', '/usr/lib/dyld', '11', '12', '-1', '0')) if with_process else None
    if with_process and proc is not None and rng.random() < 0.5:
        # a name the dump itself teaches (exec / new-thread name strings): the process a thread belongs to changes while
        # the stream is read
        codes = ev.bundled_codes()
        learned = [e.data.replace(b'\x00', b'').decode() for e in dump['events']
                   if codes.get(e.eventid) in ('TRACE_STRING_EXEC', 'TRACE_STRING_NEWTHREAD')]
        if learned:
            proc = rng.choice(learned)
    elif with_process and proc is not None and rng.random() < 0.3:
        # near misses of a declared process: its pid spelled another way, its name in another case / with a blank / cut
        k = rng.randrange(len(dump['entries']))
        proc = rng.choice(domain.near_miss_spellings(dump['entries'][k][1], dump['entries'][k][2].decode('utf-8', 'replace')))
    return {'tid': tid, 'classes': tuple(classes) if as_tuple else list(classes),
            'subs': tuple(subs) if as_tuple else list(subs), 'process': proc}


def new_front(cfg):
    from pykdebugparser.pykdebugparser import PyKdebugParser
    p = PyKdebugParser()
    p.filter_tid = cfg['tid']
    p.filter_class = copy.copy(cfg['classes'])
    p.filter_subclass = copy.copy(cfg['subs'])
    p.filter_process = cfg['process']
    p.color = False
    return p


def key(t):
    return (t.ktraces[0].timestamp, t.ktraces[0].eventid, str(t), t.ktraces[-1].timestamp)


def user_filter(dump, cfg):
    """Returns f(key) -> True / False / None (None = either answer accepted: the trace's trigger record is itself a
    map-updating record, so the inclusive and the exclusive reading of 'at that point of the stream' both hold)."""
    from props import c14
    tp0, pn0 = wire.threadmap_model(dump['entries'])
    if 'table_states' not in dump:
        dump['table_states'] = c14.table_states(dump)
        dump['index'] = {e.timestamp: i for i, e in enumerate(dump['events'])}
        dump['by_ts'] = {e.timestamp: e for e in dump['events']}

    def matches(tp, pn, tid):
        pid = tp.get(tid, -1)
        return cfg['process'] == str(pid) or cfg['process'] == pn.get(pid, '')

    def ok(k):
        ts, eid, _, trigger_ts = k
        e = dump['by_ts'][ts]
        if cfg['tid'] is not None and e.tid != cfg['tid']:
            return False
        if cfg['classes'] or cfg['subs']:
            if (eid >> 24) & 0xff not in cfg['classes'] and (eid >> 16) & 0xffff not in cfg['subs']:
                return False
        if cfg['process'] is not None:
            if dump.get('static_map'):
                return matches(tp0, pn0, e.tid)
            states, updating = dump['table_states']
            i = dump['index'][trigger_ts]
            after = matches(*states[i], e.tid)
            before = matches(*(states[i - 1] if i else (tp0, pn0)), e.tid)
            if updating[i] and after != before:
                return None
            return after
        return True
    return ok


def settings(p):
    return (p.filter_tid, copy.deepcopy(p.filter_class), copy.deepcopy(p.filter_subclass), p.filter_process,
            type(p.filter_class).__name__, type(p.filter_subclass).__name__)


def check(res, rng, dump, cfg, unfiltered, other_dump):
    case = {'file': dump['data'], 'config': {k: (list(v) if isinstance(v, tuple) else v) for k, v in cfg.items()},
            'tuple': isinstance(cfg['classes'], tuple)}
    p = new_front(cfg)
    before = settings(p)
    verdict = user_filter(dump, cfg)
    verdicts = {k: verdict(k) for k in unfiltered}
    want = [k for k in unfiltered if verdicts[k]]
    optional = {k for k in unfiltered if verdicts[k] is None}
    requests = [rng.choice(('traces', 'traces', 'formatted_traces', 'callstacks')) for _ in range(rng.randrange(2, 5))]
    requests[0] = 'traces'
    first_formatted = None
    label = (f'tid={cfg["tid"]} classes={list(cfg["classes"])} subclasses={[hex(s) for s in cfg["subs"]]} '
             f'process={cfg["process"]!r}')
    res.case((dump['data'], repr(cfg), tuple(requests)))
    res.count('configurations')
    same_stream = io.BytesIO(dump['data'])        # half of the histories re-read ONE stream object, rewound
    reuse_stream = rng.random() < 0.5

    def stream_of(d):
        if reuse_stream and d is dump:
            same_stream.seek(0)
            return same_stream
        return wire.stream(d['data'])
    for i, req in enumerate(requests):
        src = dump
        if i and rng.random() < 0.2:
            # the configured object is replaced by a checkpoint of itself between two requests (a pickle round trip or a
            # deep copy: a front end kept in a session store, handed to a worker process)
            import pickle
            p = pickle.loads(pickle.dumps(p)) if rng.random() < 0.6 else copy.deepcopy(p)
            res.count('front_ends_replaced_by_a_checkpoint_between_requests')
        if req == 'traces' and i > 0 and rng.random() < 0.3 and other_dump is not None:
            # a request on a different file in between must not disturb the next one
            try:
                list(p.traces(io.BytesIO(other_dump['data'])))
            except Exception as x:
                res.violation(f'c13-raises-{core.exc_name(x)}', f'{label}: {x!r}', case)
                return
        try:
            if req == 'traces':
                got = [key(t) for t in p.traces(stream_of(src))]
                if optional:
                    # traces for which either answer is accepted are judged as the tool judged them
                    gs = set(got)
                    want = [k for k in unfiltered if verdicts[k] or (verdicts[k] is None and k in gs)]
                if got != want:
                    extra = [g for g in got if g not in want][:2]
                    missing = [w for w in want if w not in got][:2]
                    res.violation('c13-filtered-differs' + ('-on-repeat' if i > 0 else ''),
                                  f'{label}, request {i + 1} ({req}): {len(got)} traces, the unfiltered run restricted to '
                                  f'the filter has {len(want)}; unexpected {[(hex(e[1]), e[2]) for e in extra]}, missing '
                                  f'{[(hex(m[1]), m[2]) for m in missing]}', dict(case, requests=requests))
                    return
                res.count('trace_requests_compared')
            elif req == 'formatted_traces':
                lines = list(p.formatted_traces(stream_of(src)))
                if optional and len(lines) != len(want):
                    res.count('formatted_requests_with_optional_traces_skipped')
                    continue
                if len(lines) != len(want) or any(not l.endswith(w[2]) for l, w in zip(lines, want)):
                    res.violation('c13-formatted-differs' + ('-on-repeat' if i > 0 else ''),
                                  f'{label}, request {i + 1} ({req}): {len(lines)} lines for {len(want)} expected traces',
                                  dict(case, requests=requests))
                    return
                if first_formatted is None:
                    first_formatted = lines
                elif lines != first_formatted:
                    res.violation('c13-repeat-differs', f'{label}: formatted_traces request {i + 1} differs from the earlier one',
                                  dict(case, requests=requests))
                    return
                res.count('formatted_requests_compared')
            else:
                list(p.callstacks(stream_of(src)))
                res.count('callstack_requests')
        except Exception as x:
            res.violation(f'c13-raises-{core.exc_name(x)}', f'{label}, request {i + 1} ({req}): {x!r} at {core.short_tb(x)}',
                          dict(case, requests=requests))
            return
        after = settings(p)
        if after != before:
            res.violation('c13-filter-settings-changed', f'{label}: after request {i + 1} ({req}) the caller\'s settings read '
                          f'{after[:4]}, they were set to {before[:4]}', dict(case, requests=requests))
            return
    res.count('histories')
    if cfg['classes'] or cfg['subs']:
        res.count('configurations_with_class_or_subclass')
        shown_classes = {(k[1] >> 24) & 0xff for k in want}
        if 7 in shown_classes or 3 in shown_classes:
            res.count('configurations_showing_a_helper_class_on_request')
        hidden_helper = any(((k[1] >> 24) & 0xff in (3, 7)) and not user_filter(dump, cfg)(k) for k in unfiltered)
        if hidden_helper:
            res.count('configurations_hiding_helper_traces')


def check_cli(res, rng, dump, cfg):
    """The `traces` command with the same filters, written in any notation the options accept, prints the lines the
    library formats for that request."""
    from vlib import cli
    if cfg['tid'] is not None and cfg['tid'] < 0:
        return
    classes, subs = list(cfg['classes']), list(cfg['subs'])
    out, exc, args = cli.run('traces', dump['data'], tid=cfg['tid'], process=cfg['process'], classes=classes, subs=subs,
                             color=False, rng=rng)
    case = {'file': dump['data'], 'args': args}
    if exc is not None:
        res.violation(f'c13-cli-raises-{core.exc_name(exc)}', f'`traces {" ".join(args)}`: {exc!r}', case)
        return
    try:
        want = cli.api('traces', dump['data'], tid=cfg['tid'], process=cfg['process'], classes=classes, subs=subs, color=False)
    except Exception as x:
        res.violation(f'c13-raises-{core.exc_name(x)}', f'{x!r}', case)
        return
    res.count('cli_requests_compared')
    if out != ''.join(l + '\n' for l in want):
        res.violation('c13-cli-differs-from-api', f'`traces {" ".join(args)}` prints {len(out.splitlines())} lines, the library '
                      f'formats {len(want)} for tid={cfg["tid"]} classes={classes} subclasses={[hex(x) for x in subs]} '
                      f'process={cfg["process"]!r}', case)


def edit_in_place(rng, held, target):
    """Turns the list `held` into `target` by in-place operations only."""
    how = rng.randrange(4)
    if how == 0:
        held[:] = target
    elif how == 1:
        held.clear()
        held.extend(target)
    elif how == 2:
        for x in [x for x in held if x not in target]:
            held.remove(x)
        for x in target:
            if x not in held:
                held.append(x)
        if held != target:          # same members, another order
            held.sort(key=target.index)
    else:
        for i, x in enumerate(target):
            if i < len(held):
                held[i] = x
            else:
                held.append(x)
        del held[len(target):]
    if held != target:              # duplicates in the target
        held[:] = target


def check_reconfigured(res, rng, dump, unfiltered):
    """One front-end object whose settings are changed between requests - any non-empty subset of the four, the rest
    left as set: every request honours the settings as they are at that moment."""
    from pykdebugparser.pykdebugparser import PyKdebugParser
    p = PyKdebugParser()
    p.color = False
    cur = {'tid': None, 'classes': [], 'subs': [], 'process': None}
    trail = []
    for step in range(rng.randrange(2, 6)):
        new = gen_config(rng, dump, with_process=dump['static_map'])
        if rng.random() < 0.4:
            # subclass filters are quantified over BSD subclasses (and the helper classes the statement names): a
            # subclass of another class may split a composite from the records nested in it (MACH_vmfault 0x130 and
            # its real-fault records 0x132; sampler 0x2500 and its data records), which the statement does not cover
            sub = rng.choice([e.eventid >> 16 for e in dump['events'][:60] if (e.eventid >> 24) in (4, 3, 7)] or [0x040c])
            new['classes'], new['subs'] = rng.choice(([sub >> 8], [], [sub >> 8, 0x21])), [sub]
        attrs = rng.sample(('tid', 'classes', 'subs', 'process'), rng.choice((1, 1, 2, 4))) if step else list(cur)
        for a in attrs:
            name = {'tid': 'filter_tid', 'classes': 'filter_class', 'subs': 'filter_subclass', 'process': 'filter_process'}[a]
            held = getattr(p, name)
            if a in ('classes', 'subs') and isinstance(held, list) and rng.random() < 0.5:
                # the caller edits the list the object already holds (append / remove / item and slice assignment) instead
                # of assigning a new one: the setting is whatever the list holds when the request is made
                edit_in_place(rng, held, list(new[a]))
                res.count('settings_edited_in_place')
            else:
                setattr(p, name, copy.copy(new[a]))
            cur[a] = new[a]
        cfg = dict(cur)
        trail.append({k: (list(v) if isinstance(v, tuple) else v) for k, v in cfg.items()})
        case = {'file': dump['data'], 'configs': trail}
        verdict = user_filter(dump, cfg)
        verdicts = {k: verdict(k) for k in unfiltered}
        try:
            got = [key(t) for t in p.traces(io.BytesIO(dump['data']))]
        except Exception as x:
            res.violation(f'c13-raises-{core.exc_name(x)}', f'request {step + 1} on a re-configured object under {cfg}: {x!r}', case)
            return
        gs = set(got)
        want = [k for k in unfiltered if verdicts[k] or (verdicts[k] is None and k in gs)]
        res.case((dump['data'], 'reconfigured', repr(trail)))
        res.count('reconfigured_requests')
        if got != want:
            res.violation('c13-filtered-differs-after-reconfiguration',
                          f'request {step + 1} on one front-end object after changing {attrs} (now tid={cfg["tid"]} classes='
                          f'{list(cfg["classes"])} subclasses={[hex(x) for x in cfg["subs"]]} process={cfg["process"]!r}): '
                          f'{len(got)} traces, the unfiltered run restricted to the filter has {len(want)}', case)
            return


def census(res, ctx, rng):
    """Every code of the bundled table once as a record nested inside a BSD call (H.census_nested: where a code's name
    extends a decoder's name, inside that decoder's window), in dumps of 60 calls each: with the filter asking for the
    BSD syscall subclass (or the BSD class, or both) the calls read exactly as in the unfiltered run - a decoder must not
    draw on records the filter's helper classes do not admit."""
    from pykdebugparser.pykdebugparser import PyKdebugParser
    decodable = set(H.inventory()['decodable'])
    table = ev.bundled_codes()
    todo = [(d, cid) for i, (d, cid) in enumerate(H.census_nested()) if ctx.mine(i)]
    for b in range(0, len(todo), 60):
        prog = []
        for d, cid in todo[b:b + 60]:
            name = table[cid]
            if name in domain.TEXT_PAYLOAD or (cid >> 24) == 7 or name == 'VFS_LOOKUP':
                continue                    # helper classes and multi-record texts have workloads of their own
            payload = domain.gen_single(rng, name) if name in decodable else [domain.rng_word(rng) for _ in range(4)]
            prog += H.gen_syscall(rng, d, [H.A(cid, H.NONE, payload)])
        if not prog:
            continue
        events = H.materialize(H.on_thread(11, prog), t0=0x100000001)
        entries = [(11, 100, b'proc0', b'')]
        dump = {'data': wire.v2_file(entries, 8, gen.events_to_records(events)), 'events': events, 'entries': entries,
                'static_map': True}
        try:
            unfiltered = [key(t) for t in PyKdebugParser().traces(io.BytesIO(dump['data']))]
        except Exception as x:
            res.violation(f'c13-raises-{core.exc_name(x)}', f'census dump: {x!r}', {'file': dump['data']})
            return
        for cfg in ({'tid': None, 'classes': [], 'subs': [0x040c], 'process': None},
                    {'tid': None, 'classes': [4], 'subs': [], 'process': None},
                    {'tid': 11, 'classes': [], 'subs': [0x040c, 0x010c], 'process': 'proc0'}):
            before = len(res.violations)
            check(res, rng, dump, cfg, unfiltered, None)
            if len(res.violations) > before:
                return
        res.count('census_dumps')
        res.count('census_codes_nested', len(todo[b:b + 60]))


def enclosed_lookups(res, ctx, rng):
    """A path call whose lookup happens INSIDE a nested START..END window of another class (a page fault taken while the
    path is resolved, a Mach trap, a dyld timing window ...): every decodable code that can open a window, once.  With
    the BSD filters the nested window is not read at all; the call still reads as in the unfiltered run."""
    from pykdebugparser.pykdebugparser import PyKdebugParser
    inv = H.inventory()
    n2i = ev.name2ids()
    others = [n for n in inv['decodable'] if (n2i[n][0] >> 24) not in (3, 4, 7) and n not in domain.TEXT_PAYLOAD]
    mine = [n for i, n in enumerate(others) if ctx.mine(i)]
    for b in range(0, len(mine), 25):
        prog = []
        for x in mine[b:b + 25]:
            call = rng.choice(('BSC_open', 'BSC_stat64', 'BSC_access'))
            nested = [H.A(x, H.START, domain.gen_words(rng, x, 'S'))] + H.lookup(rng.getrandbits(40), rng.choice(H.PATHS[1:6])) + \
                [H.A(x, H.END, domain.gen_words(rng, x, 'E'))]
            prog += H.gen_syscall(rng, call, nested, error=0)
        if not prog:
            continue
        events = H.materialize(H.on_thread(11, prog), t0=0x100000001)
        entries = [(11, 100, b'proc0', b'')]
        dump = {'data': wire.v2_file(entries, 8, gen.events_to_records(events)), 'events': events, 'entries': entries,
                'static_map': True}
        try:
            unfiltered = [key(t) for t in PyKdebugParser().traces(io.BytesIO(dump['data']))]
        except Exception as x:
            res.violation(f'c13-raises-{core.exc_name(x)}', f'lookups enclosed in nested windows: {x!r}', {'file': dump['data']})
            return
        for cfg in ({'tid': None, 'classes': [4], 'subs': [], 'process': None},
                    {'tid': None, 'classes': [], 'subs': [0x040c], 'process': None}):
            before = len(res.violations)
            check(res, rng, dump, cfg, unfiltered, None)
            if len(res.violations) > before:
                return
        res.count('lookups_enclosed_in_nested_windows', len(mine[b:b + 25]))


def tables_in_turn(res, rng, dump, unfiltered):
    """One front-end object, the SAME filter values, requests made with different code tables in turn (a table that lacks
    the lookup / string codes, the bundled one by default, the bundled one under other ids): every request selects and
    decodes as a fresh object does under that request's table - what an earlier request worked out for its table (which
    records its helpers are, for instance) is not reused."""
    from pykdebugparser.pykdebugparser import PyKdebugParser
    bundled = ev.bundled_codes()
    no_helpers = {k: v for k, v in bundled.items() if not v.startswith(('VFS_', 'TRACE_'))}
    events2, table2 = ev.relabel(dump['events'], rng)
    data2 = wire.v2_file(dump['entries'], 8, gen.events_to_records(events2))
    for classes, subs in (([4], []), ([], [0x040c]), ([4, 3], [])):
        shared = PyKdebugParser()
        shared.filter_class, shared.filter_subclass = list(classes), list(subs)
        plan = [(no_helpers, dump['data']), (None, dump['data']), (table2, data2), (None, dump['data']), (no_helpers, dump['data'])]
        rng.shuffle(plan)
        for table, data in plan:
            fresh = PyKdebugParser()
            fresh.filter_class, fresh.filter_subclass = list(classes), list(subs)
            try:
                want = [str(t) for t in fresh.traces(io.BytesIO(data), table)]
                got = [str(t) for t in shared.traces(io.BytesIO(data), table)]
            except Exception as x:
                res.violation(f'c13-raises-{core.exc_name(x)}', f'tables in turn under classes={classes} subclasses={subs}: {x!r}',
                              {'file': dump['data']})
                return
            res.count('requests_with_tables_in_turn')
            if got != want:
                k = next((i for i, (a, b) in enumerate(zip(got, want)) if a != b), min(len(got), len(want)))
                res.violation('c13-filtered-differs-after-a-request-with-another-table', f'one object, classes={classes} '
                              f'subclasses={[hex(x) for x in subs]} throughout, requests with different code tables in turn: '
                              f'trace {k} reads {got[k] if k < len(got) else None!r}, a fresh object under the same table '
                              f'{want[k] if k < len(want) else None!r} ({len(got)} vs {len(want)} traces)',
                              {'file': dump['data']})
                return


def aliases_within_class(res, ctx, rng):
    """The filters commute with decoding under a SUPPLIED table as well - one that lists names (the lookups and strings
    the tool reads for the requested classes among them) under several ids of one class, in different subclasses: a
    filtered run is the unfiltered run under that table restricted to the filter, whichever id a record uses."""
    from pykdebugparser.pykdebugparser import PyKdebugParser
    for _ in range(ctx.pick(6, 120)):
        dump = gen_dump(rng, True)
        events2, table = ev.alias_within_class(dump['events'], rng)
        data2 = wire.v2_file(dump['entries'], 8, gen.events_to_records(events2))
        case = {'file': data2, 'table': {hex(k): v for k, v in table.items() if k not in ev.bundled_codes()}}
        try:
            unfiltered = [key(t) for t in PyKdebugParser().traces(io.BytesIO(data2), table)]
        except Exception as x:
            res.violation(f'c13-raises-{core.exc_name(x)}', f'table with names under several ids of one class: {x!r}', case)
            continue
        bsd_subs = sorted({(k[1] >> 16) & 0xffff for k in unfiltered if (k[1] >> 24) & 0xff == 4})
        configs = [([4], []), ([4, 3], []), ([3], []), ([7], []), ([4], [0x0701])]
        configs += [([], [s_]) for s_ in bsd_subs[:3]] + ([([], bsd_subs[:2])] if len(bsd_subs) > 1 else [])
        for classes, subs in configs:
            p = PyKdebugParser()
            p.filter_class, p.filter_subclass = list(classes), list(subs)
            for rep in (1, 2):
                try:
                    got = [key(t) for t in p.traces(io.BytesIO(data2), table)]
                except Exception as x:
                    res.violation(f'c13-raises-{core.exc_name(x)}', f'table with names under several ids of one class, classes='
                                  f'{classes} subclasses={[hex(x_) for x_ in subs]}: {x!r}', case)
                    break
                want = [k for k in unfiltered if (k[1] >> 24) & 0xff in classes or (k[1] >> 16) & 0xffff in subs]
                res.count('requests_under_tables_with_aliases_within_a_class')
                res.case((data2, tuple(classes), tuple(subs), rep))
                if got != want:
                    extra = [g for g in got if g not in want][:2]
                    missing = [w for w in want if w not in got][:2]
                    res.violation('c13-filtered-differs' + ('-on-repeat' if rep > 1 else ''),
                                  f'supplied table listing names under several ids of one class (other subclasses among them), '
                                  f'classes={classes} subclasses={[hex(x_) for x_ in subs]}, request {rep}: {len(got)} traces, the '
                                  f'unfiltered run under that table restricted to the filter has {len(want)}; unexpected '
                                  f'{[(hex(e[1]), e[2]) for e in extra]}, missing {[(hex(m[1]), m[2]) for m in missing]}', case)
                    break


def wide_nesting(res, ctx, rng):
    """Nesting width: while a BSD call is in flight its thread opens thousands of windows of ids the filter does not admit
    (application signposts that never end).  Filtered and unfiltered runs see very different numbers of open windows; the
    call reads the same in both."""
    from pykdebugparser.pykdebugparser import PyKdebugParser
    for n in [n for i, n in enumerate((4095, 4096, 4097, 5000)) if ctx.mine(i)]:
        seq = H.path_syscall(rng, 'BSC_open', 1, error=0, interleave_unrelated=False)
        events, _ = H.stretched_events(seq, 1, n, rng, tid=11, t0=0x100000001, wide=True)
        events += H.materialize(H.on_thread(12, H.syscall('BSC_getpid', (0, 0, 0, 0), (0, 77, 0, 0))), t0=events[-1].timestamp + 7)
        entries = [(11, 100, b'proc0', b''), (12, 200, b'proc1', b'')]
        dump = {'data': wire.v2_file(entries, 8, gen.events_to_records(events)), 'events': events, 'entries': entries,
                'static_map': True}
        try:
            unfiltered = [key(t) for t in PyKdebugParser().traces(io.BytesIO(dump['data']))]
        except Exception as x:
            res.violation(f'c13-raises-{core.exc_name(x)}', f'{n} windows open at once: {x!r}', {'file': dump['data']})
            return
        for cfg in ({'tid': None, 'classes': [4], 'subs': [], 'process': None},
                    {'tid': None, 'classes': [], 'subs': [0x040c], 'process': None},
                    {'tid': None, 'classes': [4, 0x21], 'subs': [], 'process': None}):
            before = len(res.violations)
            check(res, rng, dump, cfg, unfiltered, None)
            if len(res.violations) > before:
                return
        res.count('wide_nesting_dumps')


def long_capture(res, ctx, rng, n_workers):
    """Scale ladder: process and thread filters on a long capture (thousands of short-lived threads); membership is
    judged with the incremental table model of C14 (process text of the emitting thread at the trace's trigger)."""
    from pykdebugparser.pykdebugparser import PyKdebugParser
    dump = c14.build_long_dump(rng, n_workers)
    case = {'file': dump['data'], 'workers': n_workers}
    _, updating, texts = c14.walk_tables(dump, False)
    index = {e.timestamp: k for k, e in enumerate(dump['events'])}
    try:
        unfiltered = list(PyKdebugParser().traces(io.BytesIO(dump['data'])))
    except Exception as x:
        res.violation(f'c13-raises-{core.exc_name(x)}', f'long capture: {x!r}', case)
        return

    def member(text, proc):
        name, _, pid = text.rpartition('(')
        return not text.startswith('Error: tid') and proc in (name, pid.rstrip(')'))
    for proc in ('daemon0', '100', 'worker7', str(5000 + 3 * (n_workers // 6)), 'nosuch'):
        p = PyKdebugParser()
        p.filter_process = proc
        try:
            got = [key(t) for t in p.traces(io.BytesIO(dump['data']))]
        except Exception as x:
            res.violation(f'c13-raises-{core.exc_name(x)}', f'long capture, process={proc!r}: {x!r}', case)
            return
        gs = set(got)
        want = []
        for t in unfiltered:
            k = index[t.ktraces[-1].timestamp]
            before, after = texts[k]
            if member(after, proc) or (updating[k] and member(before, proc) and key(t) in gs):
                if member(after, proc) or key(t) in gs:
                    want.append(key(t))
        res.count('long_capture_requests')
        res.count('long_capture_traces_selected', len(want))
        if got != want:
            res.violation('c13-filtered-differs', f'long capture ({n_workers} short-lived threads), process={proc!r}: {len(got)} '
                          f'traces, the unfiltered run restricted to the filter has {len(want)}', dict(case, process=proc))
            return


def run(ctx):
    res = core.Result()
    rng = ctx.rng
    from pykdebugparser.pykdebugparser import PyKdebugParser
    prev = None
    for i in range(ctx.pick(40, 3000)):
        static_map = i % 2 == 0
        dump = gen_dump(rng, static_map)
        base = PyKdebugParser()
        try:
            unfiltered = [key(t) for t in base.traces(io.BytesIO(dump['data']))]
        except Exception as x:
            res.violation(f'c13-raises-{core.exc_name(x)}', f'unfiltered run: {x!r}', {'file': dump['data']})
            continue
        if len({k[0] for k in unfiltered}) != len(unfiltered):
            # two traces triggered by one START are impossible; first-event timestamps identify traces
            pass
        for _ in range(6):
            cfg = gen_config(rng, dump, with_process=True)
            if not static_map and cfg['process'] is not None:
                cfg['tid'] = None      # the table model replays the whole stream; with a tid filter other threads'
                res.count('process_filters_on_dumps_with_map_updates')   # map updates would not be consumed
            check(res, rng, dump, cfg, unfiltered, prev)
            if i % 3 == 0:
                check_cli(res, rng, dump, cfg)
        check_reconfigured(res, rng, dump, unfiltered)
        if i % 3 == 0:
            tables_in_turn(res, rng, dump, unfiltered)
        prev = dump
    census(res, ctx, rng)
    enclosed_lookups(res, ctx, rng)
    aliases_within_class(res, ctx, rng)
    wide_nesting(res, ctx, rng)
    if ctx.shard == 0:
        for n in ctx.pick((2600,), (2600, 12000)):
            long_capture(res, ctx, rng, n)
        res.sample({'configuration': {'classes': [4], 'subclasses': ['0x301']},
                    'expected': 'BSD traces and lookup traces (requested by subclass); kernel trace-string traces consumed '
                                'but not reported', 'history': ['traces', 'formatted_traces', 'traces']})
    res.assumptions += ['process filters on dumps with map-updating records are judged with C14\'s table model (state at the '
                        'trace\'s trigger event; either answer accepted when the trigger itself updates the tables)', 'strings/lookups consumed by a decoder are emitted by the same '
                        'thread (tid-filtered comparisons keep cross-thread context out, as in C05)',
                        'records of non-requested classes that update the shared tables (sampler thread data) carry the '
                        'pid the thread map already declares',
                        'a trace satisfies the filter when its first event does']
    res.require('trace_requests_compared', 100)
    res.require('configurations_with_class_or_subclass', 30)
    res.require('configurations_showing_a_helper_class_on_request', 3)
    res.require('configurations_hiding_helper_traces', 10)
    res.require('formatted_requests_compared', 10)
    res.require('process_filters_on_dumps_with_map_updates', 10)
    res.require('reconfigured_requests', 20)
    res.require('settings_edited_in_place', 5)
    res.require('census_codes_nested', 2500)
    res.require('wide_nesting_dumps', 4)
    res.require('lookups_enclosed_in_nested_windows', 50)
    res.require('requests_with_tables_in_turn', 50)
    res.require('requests_under_tables_with_aliases_within_a_class', 50)
    res.require('cli_requests_compared', 20)
    res.require('long_capture_traces_selected', 100)
    return res


def replay(case, ctx):
    res = core.Result()
    print('replay: re-run the check; the replay file holds the dump, the configuration and the request history')
    return res
