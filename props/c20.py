"""C20 - composite traces reflect exactly the records nested in their window.

Monitor: windows with any number/order of nested records of each relevant kind, mixed with unrelated same-thread
records, are fed to the real TracesParser; the fields of the emitted MachVmfault / DyldLaunchExecutable /
PerfEvent objects are compared with a reference computed from the window itself.
"""
from vlib import core, ev, histories as H, stream

LEVEL = 'exploration'
RULE = ('windows = page faults (END result zero/non-zero x all 11 fault types x 0..3 nested real-fault records of the 4 '
        'kinds in every order), launch windows (0..8 map / shared-cache records, random load addresses with ties), '
        'sampler windows (all combinations of the TH_INFO/USTACK flags x presence of thread-data / header / data '
        'records, other flag bits random), each mixed with unrelated same-thread records; non-trivial = window whose '
        'composite trace was compared field by field; distinct = distinct windows')
QUICK_SHARDS = 4
THOROUGH_SHARDS = 16
KINDS = ('internal', 'external', 'shared', 'purgeable')
DECODED = {'internal', 'external', 'shared'}


def feed(seq, tid=8):
    parser = ev.new_parser()
    out = []
    events = H.materialize(H.on_thread(tid, seq))
    for e in events:
        t = parser.feed(e)
        if t is not None:
            out.append(t)
    return events, out


def noise(rng, k):
    """Unrelated same-thread records; records of the kinds the composites look for are not 'unrelated' here."""
    return [a for a in H.unrelated(rng, k) if not (isinstance(a[0], str) and a[0].startswith(('RealFault', 'DYLD_', 'PERF_')))]


def with_noise(rng, nested):
    out = []
    for n in nested:
        if rng.random() < 0.4:
            out += noise(rng, rng.randrange(1, 3))
        out.append(n)
    if rng.random() < 0.4:
        out += noise(rng, 1)
    return out


def prot_value(prots):
    v = 0
    for p in prots:
        v |= p.value
    return v


def faults(res, ctx, rng):
    import itertools
    combos = [()]
    for n in (1, 2, 3):
        combos += list(itertools.product(KINDS, repeat=n))
    idx = 0
    for combo in combos:
        for result in (0, 1, 5):
            for ftype in range(1, 12):
                idx += 1
                if not ctx.mine(idx) or (not ctx.thorough and len(combo) == 3 and (idx // 7) % 4):
                    continue
                recs = []
                for k in combo:
                    recs.append((k, rng.choice((rng.getrandbits(40), 0, (1 << 64) - 1)) if rng.random() < 0.2 else rng.getrandbits(40),
                                 rng.randrange(256), rng.randrange(1, 12),
                                 rng.choice((0, 0, 1, (1 << 31) - 1, 1 << 31, (1 << 32) - 1, 1 << 32, (1 << 64) - 1))
                                 if rng.random() < 0.3 else rng.randrange(1, 99999)))
                nested = with_noise(rng, [H.real_fault(k, va, pr, ft, pid) for k, va, pr, ft, pid in recs])
                if recs and rng.random() < 0.4:
                    # NEIGHBOURS of the real-fault codes - the other codes of their subclass (0x0132: fast / slow fault,
                    # map lookups, disconnects), ids just below and above the four, the same low bits in the next classes -
                    # are not real-fault records: one of them BEFORE the first real-fault record changes nothing
                    nb = rng.choice((0x1320000, 0x1320004, 0x1320018, 0x132001c, 0x1320020, 0x1320100, 0x132fffc, 0x1330008,
                                     0x1310008, 0x2320008, 0x0320008, 0x1320008 | (1 << 16)))
                    nested.insert(0, H.A(nb, H.NONE, tuple(rng.getrandbits(32) for _ in range(4))))
                    res.count('fault_windows_with_a_neighbouring_code_first')
                addr = rng.getrandbits(44)
                is_kernel = rng.randrange(2)
                seq = H.page_fault(addr, is_kernel, result, ftype, nested)
                case = {'events': [[c, q, list(p) if not isinstance(p, bytes) else p] for c, q, p in seq]}
                try:
                    events, traces = feed(seq)
                except Exception as x:
                    res.violation(f'c20-fault-raises-{core.exc_name(x)}', f'page fault with nested {combo}: {x!r}', case)
                    continue
                res.case(tuple((e.debugid, e.data) for e in events))
                res.count('fault_windows')
                vm = [t for t in traces if type(t).__name__ == 'MachVmfault']
                if len(vm) != 1:
                    res.violation('c20-fault-count', f'{len(vm)} page-fault traces for one window', case)
                    continue
                t = vm[0]
                label = f'page fault result={result} type={ftype} nested={combo}'
                if t.result != result or t.addr != addr or bool(t.is_kernel) != bool(is_kernel):
                    res.violation('c20-fault-result', f'{label}: result {t.result} addr {hex(t.addr)} (END word 2 is '
                                  f'{result})', case)
                    continue
                if result == 0 and (t.fault_type is None or t.fault_type.value != ftype):
                    res.violation('c20-fault-type', f'{label}: fault type {t.fault_type}', case)
                    continue
                if result != 0 and t.fault_type is not None and t.fault_type.value != ftype:
                    res.violation('c20-fault-type', f'{label}: fault type {t.fault_type}', case)
                    continue
                got = None if t.pid is None and t.caller_prot is None else (t.pid, prot_value(t.caller_prot or []))
                if not recs:
                    if got is not None:
                        res.violation('c20-fault-pid-without-record', f'{label}: pid/protection {got} although the window '
                                      f'has no real-fault record', case)
                        continue
                else:
                    first = recs[0]
                    want = (first[4], first[2])
                    if first[0] in DECODED:
                        ok = got == want if result == 0 else got in (None, want)
                    else:
                        # first record of the undecoded kind: either answer accepted (absent, or a decoded later record)
                        later = [(r[4], r[2]) for r in recs if r[0] in DECODED]
                        ok = got is None or got in later
                    if not ok:
                        res.violation('c20-fault-pid-prot', f'{label}: pid/protection {got}, first nested real-fault record '
                                      f'({first[0]}) has pid {first[4]} protection {hex(first[2])}', case)
                        continue
                text = str(t)
                if f'result: {result}' not in text or (result == 0 and got is not None and f'pid: {got[0]}' not in text):
                    res.violation('c20-fault-text', f'{label}: {text!r}', case)
                    continue
                res.count('faults_compared')
                retain(label, t, lambda x: (x.result, x.fault_type, x.pid, tuple(x.caller_prot or ()), str(x)))
                if len(STREAM_CASES) < 1500:
                    STREAM_CASES.append((seq, [str(x) for x in traces], label))
                if recs and recs[0][0] == 'purgeable':
                    res.count('faults_first_record_undecoded')


def faults_under_other_tables(res, ctx, rng):
    """"... when the tool decodes that record's kind" is a statement about the code table in use and the parser's decoder
    table: under a supplied table that does not name the real-fault record's id (an older or trimmed table), names it with a
    name no decoder handles, or on a parser whose decoder for it was removed, the record is one the tool does not decode -
    it gets no trace of its own, and the page fault carries neither its pid nor its protection (a later record of a kind
    that IS decoded may supply them, as for the purgeable kind under the bundled table)."""
    bundled = dict(ev.bundled_codes())
    n2i = ev.name2ids()
    for kind in sorted(DECODED):
        name = H.REAL_FAULT[kind]
        rid = n2i[name][0]
        for how in ('id removed from the table', 'id named with an undecoded name', 'decoder removed from the parser'):
            for second in (None,) + tuple(sorted(DECODED - {kind})):
                for rep in range(ctx.pick(2, 12)):
                    pid, prot = rng.choice((0, 1, 77, (1 << 32) - 1)), rng.randrange(256)
                    recs = [(kind, rng.getrandbits(40), prot, rng.randrange(1, 12), pid)]
                    if second:
                        recs.append((second, rng.getrandbits(40), rng.randrange(256), rng.randrange(1, 12), rng.randrange(1, 999)))
                    seq = H.page_fault(rng.getrandbits(44), 0, 0, rng.randrange(1, 12),
                                       with_noise(rng, [H.real_fault(k, va, pr, ft, pd) for k, va, pr, ft, pd in recs]))
                    table = dict(bundled)
                    if how == 'id removed from the table':
                        del table[rid]
                    elif how == 'id named with an undecoded name':
                        table[rid] = 'VM_SOMETHING_THE_TOOL_HAS_NO_DECODER_FOR'
                    parser = ev.new_parser(table)
                    if how == 'decoder removed from the parser':
                        parser.handlers = {k: v for k, v in parser.handlers.items() if k != name}
                    case = {'events': [[c, q, list(p) if not isinstance(p, bytes) else p] for c, q, p in seq], 'how': how}
                    label = f'page fault whose first nested record is {name}, {how}' + (f', followed by a {second} record' if second else '')
                    try:
                        traces = [t for t in (parser.feed(e) for e in H.materialize(H.on_thread(8, seq))) if t is not None]
                    except Exception as x:
                        res.violation(f'c20-fault-raises-{core.exc_name(x)}', f'{label}: {x!r}', case)
                        continue
                    res.case(('fault-under-other-table', kind, how, second, rep))
                    res.count('fault_windows_under_other_tables')
                    vm = [t for t in traces if type(t).__name__ == 'MachVmfault']
                    own = [t for t in traces if type(t).__name__ == name]
                    if len(vm) != 1 or own:
                        res.violation('c20-fault-count', f'{label}: {len(vm)} page-fault traces, {len(own)} traces of the record '
                                      f'the tool does not decode', case)
                        continue
                    t = vm[0]
                    got = None if t.pid is None and t.caller_prot is None else (t.pid, prot_value(t.caller_prot or []))
                    later = [(r[4], r[2]) for r in recs[1:]]
                    if got is not None and got not in later:
                        res.violation('c20-fault-pid-prot-of-an-undecoded-record', f'{label}: the trace carries pid/protection {got} '
                                      f'({str(t)!r}) although the tool does not decode that record', case)
                        continue
                    if got is None and ('vm_prot' in str(t) or 'pid:' in str(t)):
                        res.violation('c20-fault-text', f'{label}: {str(t)!r}', case)


def orphan_parts(res, ctx, rng):
    """Parts of composites outside any window (a real-fault record without its page fault, an image record without a
    launch, sample parts without a sampler): they decode on their own and leave nothing behind for later windows -
    the sequential-composition monitors place them between the windows."""
    makers = [lambda: H.real_fault(rng.choice(KINDS), rng.getrandbits(40), rng.randrange(256), rng.randrange(1, 12), 4242),
              lambda: H.uuid_record(rng.choice(('DYLD_uuid_map_a', 'DYLD_uuid_shared_cache_a')), rng.randbytes(16), rng.getrandbits(40)),
              lambda: H.thd_data(4242, 8, 0, rng.randrange(128)),
              lambda: H.stk_uhdr(rng.randrange(512), 3), lambda: H.stk_udata([7, 8, 9])]
    for _ in range(ctx.pick(60, 600)):
        seq = [rng.choice(makers)() for _ in range(rng.choice((1, 1, 2)))]
        try:
            events, traces = feed(seq)
        except Exception as x:
            res.violation(f'c20-orphan-part-raises-{core.exc_name(x)}', f'{x!r}', {'events': [[c, q, list(p) if not isinstance(p, bytes) else p] for c, q, p in seq]})
            continue
        res.count('orphan_part_sequences')
        STREAM_CASES.append((seq, [str(x) for x in traces], f'parts outside any window: {[a[0] for a in seq]}'))


def launches(res, ctx, rng):
    for i in range(ctx.pick(200, 40000)):
        n = rng.randrange(0, 9)
        pool = [rng.getrandbits(40) for _ in range(max(1, n // 2))]
        recs = []
        for _ in range(n):
            code = rng.choice(('DYLD_uuid_map_a', 'DYLD_uuid_shared_cache_a'))
            addr = rng.choice(pool) if rng.random() < 0.4 else rng.getrandbits(40)
            recs.append((code, rng.randbytes(16), addr))
        nested = with_noise(rng, [H.uuid_record(c, u, a) for c, u, a in recs])
        # records of related but different kinds must not be listed
        if rng.random() < 0.5:
            nested.insert(rng.randrange(len(nested) + 1), H.uuid_record('DYLD_uuid_unmap_a', rng.randbytes(16), 5))
            if recs:
                # ... also when it repeats the very words of a map record of this window (the image taken out again):
                # the launch lists the records of the two map kinds, a record of another kind is not one of them
                c, u, a = rng.choice(recs)
                at = max((k for k, x in enumerate(nested) if x[0] in ('DYLD_uuid_map_a', 'DYLD_uuid_shared_cache_a')), default=0)
                nested.insert(rng.randrange(at + 1, len(nested) + 1), H.uuid_record('DYLD_uuid_unmap_a', u, a))
            nested.insert(rng.randrange(len(nested) + 1), H.A('DYLD_uuid_map_b', H.NONE, (1, 2, 3, 4)))
        mh = rng.getrandbits(40)
        seq = H.launch(mh, nested)
        case = {'events': [[c, q, list(p) if not isinstance(p, bytes) else p] for c, q, p in seq]}
        try:
            events, traces = feed(seq)
        except Exception as x:
            res.violation(f'c20-launch-raises-{core.exc_name(x)}', f'{x!r}', case)
            continue
        res.case(tuple((e.debugid, e.data) for e in events))
        res.count('launch_windows')
        la = [t for t in traces if type(t).__name__ == 'DyldLaunchExecutable']
        if len(la) != 1:
            res.violation('c20-launch-count', f'{len(la)} launch traces', case)
            continue
        t = la[0]
        got = [(type(x).__name__, x.uuid.bytes, x.load_addr) for x in t.uuid_map_a]
        want = [('DyldUuidMapA' if c == 'DYLD_uuid_map_a' else 'DyldUuidSharedCacheA', u, a) for c, u, a in recs]
        if sorted(got) != sorted(want):
            res.violation('c20-launch-list', f'launch lists {len(got)} images, the window holds {len(want)} map/shared-cache '
                          f'records (multiset differs)', case)
            continue
        addrs = [g[2] for g in got]
        if addrs != sorted(addrs):
            res.violation('c20-launch-order', f'launch list is not sorted by load address: {[hex(a) for a in addrs]}', case)
            continue
        if t.main_executable_mh != mh:
            res.violation('c20-launch-mh', f'main executable {hex(t.main_executable_mh)} vs START word 1 {hex(mh)}', case)
            continue
        res.count('launches_compared')
        retain(f'launch window with {n} image records', t,
               lambda x: (tuple((type(i).__name__, i.uuid, i.load_addr) for i in x.uuid_map_a), str(x)))
        if i % 3 == 0:
            STREAM_CASES.append((seq, [str(x) for x in traces], f'launch window with {n} image records'))
        if len(set(addrs)) < len(addrs):
            res.count('launches_with_address_ties')


def launch_streams(res, ctx, rng):
    """Several launch windows (and stand-alone image records) decoded by ONE parser, the same images (uuids) recurring
    at other load addresses: every launch trace lists the records of its own window with their own addresses."""
    for _ in range(ctx.pick(60, 3000)):
        parser = ev.new_parser()
        uuids = [rng.randbytes(16) for _ in range(3)]
        ts = 1000
        history = []
        for w in range(rng.randrange(2, 6)):
            tid = rng.choice((8, 9))
            recs = [(rng.choice(('DYLD_uuid_map_a', 'DYLD_uuid_shared_cache_a')), rng.choice(uuids), rng.getrandbits(36))
                    for _ in range(rng.randrange(0, 5))]
            pre = [H.uuid_record(rng.choice(('DYLD_uuid_map_a', 'DYLD_uuid_unmap_a', 'DYLD_uuid_shared_cache_a')),
                                 rng.choice(uuids), rng.getrandbits(36))] if rng.random() < 0.5 else []
            seq = pre + H.launch(rng.getrandbits(40), with_noise(rng, [H.uuid_record(c, u, a) for c, u, a in recs]))
            events = H.materialize(H.on_thread(tid, seq), t0=ts)
            ts = events[-1].timestamp + 7
            history += events
            try:
                traces = [t for t in (parser.feed(e) for e in events) if t is not None]
            except Exception as x:
                res.violation(f'c20-launch-raises-{core.exc_name(x)}', f'{x!r}', {'events': [ev.ev_to_case(e) for e in history]})
                return
            la = [t for t in traces if type(t).__name__ == 'DyldLaunchExecutable']
            res.case(tuple((e.debugid, e.data) for e in events))
            res.count('launch_stream_windows')
            got = sorted((type(x).__name__, x.uuid.bytes, x.load_addr) for x in la[0].uuid_map_a) if len(la) == 1 else None
            want = sorted(('DyldUuidMapA' if c == 'DYLD_uuid_map_a' else 'DyldUuidSharedCacheA', u, a) for c, u, a in recs)
            if got != want:
                res.violation('c20-launch-list-depends-on-earlier-windows', f'window {w + 1} of one stream: launch lists '
                              f'{[(g[0], hex(g[2])) for g in got or []]}, its window holds {[(x[0], hex(x[2])) for x in want]}',
                              {'events': [ev.ev_to_case(e) for e in history]})
                return
            if pre:
                single = [t for t in traces if type(t).__name__.startswith('DyldUuid') and len(t.ktraces) == 1
                          and t.ktraces[0] is events[0]]
                if single and single[0].load_addr != int.from_bytes(events[0].data[16:24], 'little'):
                    res.violation('c20-image-record-depends-on-earlier-records', 'a stand-alone image record shows another '
                                  'record\'s load address', {'events': [ev.ev_to_case(e) for e in history]})
                    return


TH_INFO, USTACK = 0x1, 0x8


def samplers(res, ctx, rng):
    for i in range(ctx.pick(500, 80000)):
        flags = rng.choice((0, TH_INFO, USTACK, TH_INFO | USTACK))
        other = rng.getrandbits(14) & ~(TH_INFO | USTACK)
        what = flags | (other if rng.random() < 0.6 else 0)
        has_thd = rng.random() < 0.6
        has_hdr = rng.random() < 0.6
        n_data = rng.randrange(0, 4)
        nested = []
        thd = (rng.randrange(1, 9999), rng.randrange(1, 9999))
        if has_thd:
            nested.append(H.thd_data(thd[0], thd[1], rng.getrandbits(30), rng.randrange(128)))
        frames = [rng.getrandbits(47) for _ in range(4 * n_data)]
        if n_data >= 2 and rng.random() < 0.2:
            frames = [frames[0]] * len(frames)        # deep recursion: the data records of the sample are identical
        # the count may be anything from 0 (whole data records in surplus) to far beyond the data supplied
        nframes = rng.choice((len(frames), max(0, len(frames) - 2), len(frames) + 3, 0, 1, max(0, len(frames) - 4),
                              rng.randrange(len(frames) + 1)))
        if rng.random() < 0.15:
            nframes = rng.choice(H.HEADER_COUNT_BOUNDARIES)
        if has_hdr:
            nested.append(H.stk_uhdr(rng.randrange(512), nframes))
        for k in range(n_data):
            nested.append(H.stk_udata(frames[4 * k:4 * k + 4]))
        if rng.random() < 0.4:
            nested = H.reposition(rng, nested)      # "any order": the header / thread data anywhere among the data records
            res.count('sampler_windows_with_repositioned_header')
        nested = with_noise(rng, nested)
        actionid = rng.randrange(1000)
        seq = H.sampler(what, actionid, nested)
        case = {'events': [[c, q, list(p) if not isinstance(p, bytes) else p] for c, q, p in seq]}
        try:
            events, traces = feed(seq)
        except Exception as x:
            res.violation(f'c20-sampler-raises-{core.exc_name(x)}', f'{x!r}', case)
            continue
        res.case(tuple((e.debugid, e.data) for e in events))
        res.count('sampler_windows')
        pe = [t for t in traces if type(t).__name__ == 'PerfEvent']
        if len(pe) != 1:
            res.violation('c20-sampler-count', f'{len(pe)} sampler traces', case)
            continue
        t = pe[0]
        label = f'sampler what={hex(what)} thd_data={has_thd} header={has_hdr} data_records={n_data}'
        want_info = bool(what & TH_INFO) and has_thd
        if (t.th_info is not None) != want_info:
            res.violation('c20-sampler-thread-info', f'{label}: thread info {"present" if t.th_info is not None else "absent"}',
                          case)
            continue
        if want_info and (t.th_info.pid, t.th_info.tid) != thd:
            res.violation('c20-sampler-thread-info-value', f'{label}: {(t.th_info.pid, t.th_info.tid)} vs {thd}', case)
            continue
        want_stack = bool(what & USTACK) and has_hdr
        if (t.cs_frames is not None) != want_stack:
            res.violation('c20-sampler-user-stack', f'{label}: user stack {"present" if t.cs_frames is not None else "absent"}',
                          case)
            continue
        if want_stack and list(t.cs_frames) != frames[:nframes]:
            res.violation('c20-sampler-frames', f'{label}: frames {t.cs_frames} vs {frames[:nframes]}', case)
            continue
        if t.actionid != actionid:
            res.violation('c20-sampler-actionid', f'{label}: {t.actionid}', case)
            continue
        res.count('samplers_compared')
        retain(label, t, lambda x: (None if x.th_info is None else (x.th_info.pid, x.th_info.tid),
                                    None if x.cs_frames is None else tuple(x.cs_frames), tuple(x.sample_what), str(x)))
        if i % 5 == 0:
            STREAM_CASES.append((seq, [str(x) for x in traces], label))
        res.count(f'sampler_flags_{flags}_thd{int(has_thd)}_hdr{int(has_hdr)}')


STREAM_CASES = []
RETAINED = []     # (description, trace object, projection function, projection taken when the trace was emitted)


def retain(desc, trace, project):
    if len(RETAINED) < 20000:
        RETAINED.append((desc, trace, project, project(trace)))


def recheck_retained(res):
    """Nothing already reported may change later: every composite trace is projected again at the end of the run."""
    for desc, trace, project, before in RETAINED:
        res.count('retained_traces_rechecked')
        try:
            now = project(trace)
        except Exception as x:
            now = f'<raised {x!r}>'
        if now != before:
            res.violation('c20-reported-trace-changed-later', f'{desc}: the trace read {str(before)[:200]} when it was emitted and '
                          f'{str(now)[:200]} after later windows were decoded')
            return


def run(ctx):
    res = core.Result()
    import random
    H.set_spare(random.Random(ctx.seed * 104729 + ctx.shard))     # words the property gives no meaning to are not zeros
    H.set_clock(random.Random(ctx.seed * 7919 + ctx.shard))      # coarse time base: records may share a tick
    rng = ctx.rng
    faults(res, ctx, rng)
    if ctx.shard % 4 == 1 or ctx.nshards == 1:
        faults_under_other_tables(res, ctx, rng)
    launches(res, ctx, rng)
    launch_streams(res, ctx, rng)
    samplers(res, ctx, rng)
    orphan_parts(res, ctx, rng)
    stream.run_all(res, 'c20', STREAM_CASES, rng, 'composite windows', ctx)
    recheck_retained(res)
    if ctx.shard == 0:
        seq = H.page_fault(0x1000, 0, 0, 2, [H.real_fault('purgeable', 1, 3, 2, 44), H.real_fault('internal', 2, 1, 4, 45)])
        res.sample({'window': [f'{c}:{q}' for c, q, _ in seq], 'rendering': [str(t) for t in feed(seq)[1]][-1]})
        seq = H.sampler(0x9, 7, [H.thd_data(5, 6), H.stk_uhdr(1, 3), H.stk_udata([1, 2, 3, 4])])
        res.sample({'window': [f'{c}:{q}' for c, q, _ in seq], 'rendering': [str(t) for t in feed(seq)[1]][-1]})
    res.assumptions += ['when the first nested real-fault record is of the undecoded kind either answer (absent, or a later '
                        'decoded record) is accepted', 'with a non-zero result pid/protection may be absent']
    res.require('faults_compared', 50)
    res.require('faults_first_record_undecoded', 1)
    res.require('fault_windows_with_a_neighbouring_code_first', 20)
    res.require('fault_windows_under_other_tables', 50)
    res.require('launches_compared', 20)
    res.require('launches_with_address_ties', 1)
    res.require('samplers_compared', 50)
    res.require('stream_windows_one_thread', 20)
    res.require('file_windows_v3', 20)
    res.require('retained_traces_rechecked', 50)
    res.require('launch_stream_windows', 20)
    return res


def replay(case, ctx):
    res = core.Result()
    seq = [(c, q, p if isinstance(p, bytes) else tuple(p)) for c, q, p in case['events']]
    try:
        events, traces = feed(seq)
        for t in traces:
            print('  ', type(t).__name__, str(t))
    except Exception as x:
        res.violation(f'c20-raises-{core.exc_name(x)}', repr(x), case)
    return res
