"""C08 - paths and strings split over several records are reassembled exactly, once.

Monitor: texts of every length 0..184 in the kernel's own chunking (vlib.wire.lookup_chunks / string chunkers)
are fed to the real TracesParser stand-alone, inside every path-taking syscall, with unrelated same-thread
records between the chunks and with 1..6 lookups per window; the emitted traces are recorded at the feed boundary
and checked offline: exactly one lookup/string trace per logical item with exactly the text (and first vnode id),
no trace for a lone continuation record, tables updated with the text, enclosing syscalls show the paths.
"""
import re

from vlib import stream, core, ev, wire, domain, histories as H

LEVEL = 'exploration'
RULE = ('texts = every byte length 0..184 (lookups) / 0..200 (global strings) / 0..63 (thread names) x {ASCII, multi-byte '
        'UTF-8 placed so that a character straddles a record boundary} x contexts {stand-alone, inside each discovered '
        'path-taking syscall, unrelated same-thread records between chunks, 1..6 distinct lookups per window}; '
        'non-trivial = history whose emitted traces were all compared with the expected reassembly; distinct = '
        'distinct event sequences')
QUICK_SHARDS = 4
THOROUGH_SHARDS = 16
ALPHABET = 'abcdefghijklmnopqrstuvwxyzABCDEFGHIJKLMNOPQRSTUVWXYZ0123456789/._-+ '


def ascii_text(L, salt=0):
    return ''.join(ALPHABET[(i * 7 + salt * 13 + L) % len(ALPHABET)] for i in range(L)).encode()


def straddling_text(L, first_len, salt=0):
    """UTF-8 text of exactly L bytes with a multi-byte character across every record boundary it can reach.
    first_len = payload bytes of the first record (24 for lookups, 16 for global strings, 32 for names)."""
    out = bytearray()
    boundaries = set()
    b = first_len
    while b < L + 4:
        boundaries.add(b)
        b += 32
    i = 0
    k = salt
    while len(out) < L:
        pos = len(out)
        remaining = L - pos
        ch = None
        for width, c in ((3, '日'), (2, 'é')):
            # start a wide character one byte before a boundary so that it straddles it
            if remaining >= width and any(pos < bd < pos + width for bd in boundaries):
                ch = c
                break
        if ch is None:
            ch = ALPHABET[(k * 11 + L) % len(ALPHABET)]
            k += 1
        out += ch.encode('utf-8')
    assert len(out) == L
    return bytes(out)


def mixed_width_text(L, salt=0):
    """UTF-8 text of exactly L bytes whose 1-, 2-, 3- and 4-byte characters fall across 4- and 8-byte word boundaries at
    every phase."""
    out = bytearray()
    cycle = ('x', '\u65e5', '\u00e9', 'y', '\U0001f600', 'z')
    k = salt
    while len(out) < L:
        c = cycle[k % len(cycle)].encode()
        k += 1
        out += c if len(out) + len(c) <= L else b'w'
    return bytes(out)


HANDOVER = [0]


def collect(events):
    """Feed through the real parser; returns (parser, [(index of triggering event, trace)], exception).  Every fifth
    history is fed by TWO OS threads one after the other: the caller feeds up to a point in the middle (texts half
    assembled, windows open) and a worker thread feeds the rest - who feeds a record is not part of the record."""
    import threading
    parser = ev.new_parser()
    out = []
    box = [None]

    def feed_range(lo, hi):
        for i in range(lo, hi):
            try:
                t = parser.feed(events[i])
            except Exception as x:
                box[0] = (i, x)
                return
            if t is not None:
                out.append((i, t))
    HANDOVER[0] += 1
    cut = len(events)
    if HANDOVER[0] % 5 == 0 and len(events) > 2:
        cut = 1 + (HANDOVER[0] // 5) % (len(events) - 1)
    feed_range(0, cut)
    if box[0] is None and cut < len(events):
        worker = threading.Thread(target=feed_range, args=(cut, len(events)), daemon=True)
        worker.start()
        worker.join(timeout=120)
    return parser, out, box[0]


def lone_continuation(trace, names):
    kt = getattr(trace, 'ktraces', None)
    if kt is None or len(kt) != 1:
        return False
    e = kt[0]
    return e.func_qualifier == 0 and ev.bundled_codes().get(e.eventid) in names


def case_of(events):
    return {'events': [ev.ev_to_case(e) for e in events]}


def quoted(text):
    return re.findall(r'"([^"]*)"', text)


# ---------------------------------------------------------------------------------------------
# lookups
# ---------------------------------------------------------------------------------------------

def check_lookup_history(res, events, expected, label, enclosing=None, arity=None, rng=None):
    """expected: [(text str, vnode id)] in lookup order."""
    parser, traces, exc = collect(events)
    res.case(tuple((e.debugid, e.data, e.tid) for e in events) if len(events) < 10000 else (label, len(events)))
    res.count('histories')
    if exc is not None:
        res.violation(f'c08-raises-{core.exc_name(exc[1])}', f'{label}: {exc[1]!r} at event {exc[0]}', case_of(events))
        return
    for i, t in traces:
        if lone_continuation(t, ('VFS_LOOKUP',)):
            res.violation('c08-continuation-record-emits-trace', f'{label}: continuation record at index {i} produced a '
                          f'trace of its own: {str(t)!r}', case_of(events))
            return
    got = [(t.path, t.vnode_id) for _, t in traces if type(t).__name__ == 'VfsLookup']
    if got != expected:
        res.violation('c08-lookup-reassembly', f'{label}: lookup traces {got[:4]} expected {expected[:4]} '
                      f'({len(got)} vs {len(expected)})', case_of(events))
        return
    res.count('lookups_compared', len(expected))
    if rng is not None and events and rng.random() < 0.15:
        # the same records read from a dump by the public front end (both container versions)
        kind = rng.choice(('v2', 'v3'))
        try:
            data, ft = stream.traces_via_file(events, kind, rng)
            fgot = [(t.path, t.vnode_id) for t in ft if type(t).__name__ == 'VfsLookup']
        except Exception as x:
            res.violation(f'c08-file-raises-{core.exc_name(x)}', f'{label} through a {kind} dump: {x!r}', case_of(events))
            return
        res.count('lookup_histories_through_a_dump')
        if fgot != expected or [str(t) for t in ft] != [str(t) for _, t in traces]:
            res.violation(f'c08-differs-through-{kind}-dump', f'{label}: lookups {fgot[:4]} / {len(ft)} traces when the records '
                          f'are read from a {kind} dump by the front end, {expected[:4]} / {len(traces)} when fed directly',
                          dict(case_of(events), file=data))
            return
    if enclosing:
        outer = [t for _, t in traces if type(t).__name__ != 'VfsLookup' and t.ktraces and
                 ev.bundled_codes().get(t.ktraces[0].eventid) == enclosing]
        if len(outer) != 1:
            res.violation('c08-enclosing-missing', f'{label}: {len(outer)} traces for the enclosing {enclosing}',
                          case_of(events))
            return
        shown = [q for q in quoted(str(outer[0])) if q != '']
        paths = [p for p, _ in expected]
        # order-preserving subsequence
        it = iter(paths)
        if not all(any(s == p for p in it) for s in shown):
            res.violation('c08-enclosing-paths', f'{label}: {enclosing} shows {shown}, lookups were {paths}',
                          case_of(events))
            return
        if arity is not None:
            # "in lookup order": a call with k path arguments shows the first k lookups of its window.  Two decoders document
            # another choice (posix_spawn looks up its three standard streams before the executable when it sets them up;
            # symlinkat's link path is resolved last) - that is the only per-decoder knowledge used here.
            n = len(paths)
            if enclosing == 'BSC_posix_spawn':
                want = [paths[3]] if n >= 6 else paths[:1]
            elif enclosing == 'BSC_symlinkat':
                want = paths[:1] if n < 2 else [paths[0], paths[-1]]
            else:
                want = paths[:arity]
            if shown != [p for p in want if p != '']:
                res.violation('c08-enclosing-paths', f'{label}: {enclosing} ({arity} path argument(s), {n} lookups) shows {shown}, '
                              f'expected {want} of the lookups {paths}', case_of(events))
                return
        res.count('enclosing_calls_compared')


def discover_path_decoders(res):
    """Which BSD decoders react to lookups in their window, and how many paths they show."""
    inv = H.inventory()
    rng = core.Ctx('C08', 'quick', 12345).rng
    found = {}
    for name in inv['bsd']:
        marks = [b'/PM%d/x' % i for i in range(1, 8)]
        nested = []
        for i, m in enumerate(marks):
            nested += H.lookup(100 + i, m)
        s = domain.gen_words(rng, name, 'S')
        seq = H.syscall(name, s, (0, 1, 0, 0), nested)
        parser, traces, exc = collect(H.materialize(H.on_thread(4, seq)))
        if exc is not None:
            continue
        outer = [t for _, t in traces if type(t).__name__ != 'VfsLookup']
        if not outer:
            continue
        shown = [q for q in quoted(str(outer[-1])) if q.startswith('/PM')]
        if shown:
            found[name] = len(shown)
    res.notes['path_taking_decoders'] = found
    res.count('path_taking_decoders_discovered', len(found))
    return found


# vnode ids are kernel pointers; the first word of a lookup's first record is the id whatever its value
VNODE_ID_BOUNDARIES = (0, 1, 0xff, (1 << 31) - 1, 1 << 31, (1 << 32) - 1, 1 << 32, 1 << 63, (1 << 64) - 1, 0xffffff8012345678,
                       0x2f2f2f2f2f2f2f2f, 0x0000000100000000)


def lookup_workload(res, ctx, rng, arities):
    lengths = list(range(0, 185))
    names = sorted(arities)
    idx = 0
    for L in lengths:
        for cls in ('ascii', 'straddle'):
            idx += 1
            if not ctx.mine(idx):
                continue
            text = ascii_text(L, 1) if cls == 'ascii' else straddling_text(L, 24)
            vn = 0x1000 + L if (L + (cls == 'ascii')) % 3 else VNODE_ID_BOUNDARIES[(L // 3) % len(VNODE_ID_BOUNDARIES)]
            if vn in VNODE_ID_BOUNDARIES:
                res.count('lookups_with_boundary_vnode_id')
            # (a) stand-alone
            seq = H.lookup(vn, text)
            check_lookup_history(res, H.materialize(H.on_thread(7, seq)), [(text.decode(), vn)], f'stand-alone {cls} {L}B')
            # (c) unrelated same-thread records between chunks
            mixed = []
            for a in seq:
                mixed.append(a)
                mixed += H.unrelated(rng, rng.randrange(0, 3))
            check_lookup_history(res, H.materialize(H.on_thread(7, mixed)), [(text.decode(), vn)],
                                 f'unrelated records between chunks {cls} {L}B', rng=rng)
            if len(seq) > 1:
                # (c2) windows of the same thread that OVERLAP the lookup without nesting: one opened before the lookup's
                # first record and closed between its records, one opened between them and closed after its last
                cut = rng.randrange(1, len(seq))
                call = rng.choice(('BSC_getpid', 'BSC_read', 'MACH_vmfault', 'BSC_sys_close'))
                ws, we = domain.gen_words(rng, call, 'S'), domain.gen_words(rng, call, 'E')
                for shape in ('closes inside', 'opens inside'):
                    if shape == 'closes inside':
                        over = [H.A(call, H.START, ws)] + seq[:cut] + [H.A(call, H.END, we)] + seq[cut:]
                    else:
                        over = seq[:cut] + [H.A(call, H.START, ws)] + seq[cut:] + [H.A(call, H.END, we)]
                    check_lookup_history(res, H.materialize(H.on_thread(7, over)), [(text.decode(), vn)],
                                         f'a {call} window that {shape} the lookup (overlapping, not nested) {cls} {L}B')
                    res.count('lookups_overlapped_by_another_window')
            res.count('chunks_' + str(min(len(seq), 6)))
            # (b) inside path-taking syscalls (rotating over all discovered decoders), (d) 1..6 lookups
            for rep in range(ctx.pick(2, 40)):
                name = names[(L * 3 + rep + (0 if cls == 'ascii' else 1)) % len(names)]
                n = rng.choice((1, 1, 2, 2, 3, 4, 5, 6, 7))
                texts = [text] + [ascii_text(rng.randrange(0, 185), s + 2) if rng.random() < 0.7 else
                                  straddling_text(rng.randrange(0, 185), 24, s) for s in range(n - 1)]
                rng.shuffle(texts)
                nested, expected = [], []
                for j, t in enumerate(texts):
                    if rng.random() < 0.3:
                        nested += H.unrelated(rng, 1)
                    vj = 0x2000 + j if rng.random() < 0.7 else rng.choice(VNODE_ID_BOUNDARIES)
                    nested += H.lookup(vj, t)
                    expected.append((t.decode(), vj))
                seq2 = H.gen_syscall(rng, name, nested)
                check_lookup_history(res, H.materialize(H.on_thread(7, seq2)), expected,
                                     f'{name} with {n} lookups ({cls} {L}B)', enclosing=name, arity=arities[name], rng=rng)
                res.count(f'lookups_per_window_{n}')


def identical_lookups(res, ctx, rng, arities):
    """The same path looked up twice in one window (rename(x, x), link(x, x), a retried lookup): the records of the two
    lookups are byte for byte identical - same vnode id, same text and, on a coarse time base, the same timestamp.
    They are still two lookups, in lookup order."""
    for name in sorted(n for n, a in arities.items() if a and a >= 2 and n not in ('BSC_symlinkat', 'BSC_posix_spawn')):
        for text in (b'/tmp/a', ascii_text(40, 3), ascii_text(184, 5), straddling_text(60, 24)):
            for step in (0, 7):
                vn = rng.choice((0x5511, 0xffffff8012345678))
                seq = H.gen_syscall(rng, name, H.lookup(vn, text) + H.lookup(vn, text))
                events = H.materialize(H.on_thread(7, seq), step=step)
                check_lookup_history(res, events, [(text.decode(), vn)] * 2,
                                     f'{name} with two byte-identical lookups ({len(text)}B, {"one tick" if step == 0 else "distinct ticks"})',
                                     enclosing=name, arity=arities[name])
                res.count('identical_lookup_windows')


def sibling_lookups(res, ctx, rng, arities):
    """Two (or three) DIFFERENT paths that begin alike - files of one directory: the same vnode id, the same first record
    (24 bytes and more in common), on a coarse time base the same timestamp - looked up in one window, alone and inside
    every two-path call.  Their first records are byte for byte identical; they are still different lookups with
    different texts."""
    two = sorted(n for n, a in arities.items() if a and a >= 2 and n not in ('BSC_symlinkat', 'BSC_posix_spawn')) or ['BSC_rename']
    idx = 0
    for common in (24, 25, 31, 40, 56, 57, 88, 120):
        for tails in ((b'README.old', b'README'), (b'a', b'b'), (b'x' * 40, b'x' * 39 + b'y'), (b'one', b'two', b'three'),
                      (b'', b'.bak')):
            for step in (0, 7):
                idx += 1
                if not ctx.mine(idx):
                    continue
                prefix = (b'/usr/local/share/doc/pkg-1.0/' + ascii_text(common, idx))[:common]
                texts = [prefix + t for t in tails if len(prefix + t) <= 184]
                vn = rng.choice((0x7711, 0xffffff8012345678, 0))
                nested = [a for t in texts for a in H.lookup(vn, t)]
                want = [(t.decode(), vn) for t in texts]
                label = (f'{len(texts)} lookups of one directory (vnode {hex(vn)}, {common} bytes in common, tails {list(tails)}, '
                         f'{"one tick" if step == 0 else "distinct ticks"})')
                check_lookup_history(res, H.materialize(H.on_thread(7, nested), step=step), want, 'stand-alone: ' + label)
                for name in two:
                    seq = H.gen_syscall(rng, name, nested)
                    check_lookup_history(res, H.materialize(H.on_thread(7, seq), step=step), want, f'{name}: ' + label,
                                         enclosing=name, arity=arities[name])
                    res.count('sibling_lookup_windows')


EDGE_CHARS = [chr(c) for c in range(0x20, 0x7f) if chr(c) != '"'] + ['\u00e9', '\u65e5', '\t', '\x7f', '\x01', '\u00a0', '\u200b', '\ufeff']


def edge_characters(res, ctx, rng, arities):
    """Every text length x every printable character as the text's LAST (and first) character(s): a text that fills its
    last record to the brim has no NUL padding behind it, and a decoder that tidies up "fill" characters (blanks, dots,
    '>' , slashes, padding the kernel is known to leave) then eats real text.  Lookups (alone and inside an open),
    global strings and thread names."""
    one = sorted(n for n, a in arities.items() if a == 1) or ['BSC_open']
    idx = 0
    for L in range(1, 185):
        for ci, c in enumerate(EDGE_CHARS):
            idx += 1
            if not ctx.mine(idx) or (not ctx.thorough and (L + ci) % 3 and L % 32 not in (23, 24, 25)):
                continue
            k = 1 + (L + ci) % 3
            tail = (c * k).encode()
            if len(tail) >= L:
                continue
            body = ascii_text(L - len(tail), ci)
            for text, side in ((body + tail, 'last'), (tail + body, 'first')):
                vn = 0x9000 + L
                name = one[(L + ci) % len(one)]
                check_lookup_history(res, H.materialize(H.on_thread(7, H.gen_syscall(rng, name, H.lookup(vn, text)))),
                                     [(text.decode(), vn)], f'{name} of a {L}-byte path whose {side} character(s) are {c * k!r}',
                                     enclosing=name, arity=arities.get(name))
                res.count('edge_character_texts')
                if L <= 63:
                    events = H.materialize(H.on_thread(9, H.thread_name(text) + H.global_string(700 + L, text)))
                    parser, traces, exc = collect(events)
                    got_n = [t.name for _, t in traces if type(t).__name__ == 'TraceStringThreadname']
                    got_s = [t.vstr for _, t in traces if type(t).__name__ == 'TraceStringGlobal']
                    if exc is not None or got_n != [text.decode()] or got_s != [text.decode()]:
                        res.violation('c08-name-reassembly' if got_s == [text.decode()] else 'c08-string-reassembly',
                                      f'{L}-byte text whose {side} character(s) are {c * k!r}: thread name {got_n}, global '
                                      f'string {got_s}, expected {text.decode()!r}' + (f' ({exc[1]!r})' if exc else ''),
                                      case_of(events))
                        return


def narrow_words(res, ctx, rng, arities):
    """The same texts as an ILP32 kernel with 64-bit records (arm64_32) lays them out: the kernel copies a path, a global
    string or a thread name through `long` / `uintptr_t` words, so every 64-bit argument word carries 4 text bytes and 4
    zero bytes (12 path bytes in a lookup's first record, 16 in the others; at most 92 path bytes).  The zero bytes are
    padding wherever they lie: the text is what remains, for every length and every split."""
    one = sorted(n for n, a in arities.items() if a == 1) or ['BSC_open']
    two = sorted(n for n, a in arities.items() if a and a >= 2 and n not in ('BSC_symlinkat', 'BSC_posix_spawn')) or ['BSC_rename']
    idx = 0
    for L in range(0, 93):
        for cls in ('ascii', 'straddle', 'mixed widths'):
            idx += 1
            if not ctx.mine(idx):
                continue
            text = ascii_text(L, 2) if cls == 'ascii' else straddling_text(L, 12) if cls == 'straddle' else mixed_width_text(L, L)
            vn = 0x7100 + L
            seq = H.lookup(vn, text, word=4)
            check_lookup_history(res, H.materialize(H.on_thread(7, seq)), [(text.decode(), vn)],
                                 f'stand-alone {cls} {L}B, 4 text bytes per argument word')
            mixed = []
            for a in seq:
                mixed.append(a)
                mixed += H.unrelated(rng, rng.randrange(0, 3))
            check_lookup_history(res, H.materialize(H.on_thread(7, mixed)), [(text.decode(), vn)],
                                 f'unrelated records between chunks {cls} {L}B, 4 text bytes per argument word', rng=rng)
            name = one[(L + (cls == 'ascii')) % len(one)]
            check_lookup_history(res, H.materialize(H.on_thread(7, H.gen_syscall(rng, name, seq))), [(text.decode(), vn)],
                                 f'{name} of a {L}-byte path, 4 text bytes per argument word', enclosing=name, arity=arities.get(name))
            name = two[(L + (cls == 'ascii')) % len(two)]
            other = ascii_text(rng.randrange(0, 93), 9)
            check_lookup_history(res, H.materialize(H.on_thread(7, H.gen_syscall(rng, name, seq + H.lookup(vn + 1, other, word=4)))),
                                 [(text.decode(), vn), (other.decode(), vn + 1)],
                                 f'{name} of a {L}-byte and a {len(other)}-byte path, 4 text bytes per argument word',
                                 enclosing=name, arity=arities.get(name))
            res.count('narrow_word_lookups')
            if L <= 63:
                events = H.materialize(H.on_thread(9, H.thread_name(text, word=4) + H.global_string(900 + L, text, word=4)))
                parser, traces, exc = collect(events)
                got_n = [t.name for _, t in traces if type(t).__name__ == 'TraceStringThreadname']
                got_s = [t.vstr for _, t in traces if type(t).__name__ == 'TraceStringGlobal']
                res.count('narrow_word_strings')
                if exc is not None or got_n != [text.decode()] or got_s != [text.decode()]:
                    res.violation('c08-name-reassembly' if got_s == [text.decode()] else 'c08-string-reassembly',
                                  f'{L}-byte text, 4 text bytes per argument word: thread name {got_n}, global string {got_s}, '
                                  f'expected {text.decode()!r}' + (f' ({exc[1]!r})' if exc else ''), case_of(events))
                    return


    for L in range(64, 300, 5):
        for cls in ('straddle', 'mixed widths'):
            idx += 1
            if not ctx.mine(idx):
                continue
            text = straddling_text(L, 8) if cls == 'straddle' else mixed_width_text(L, L)
            events = H.materialize(H.on_thread(9, H.global_string(5000 + L, text, word=4)))
            parser, traces, exc = collect(events)
            got_s = [t.vstr for _, t in traces if type(t).__name__ == 'TraceStringGlobal']
            res.count('narrow_word_strings')
            if exc is not None or got_s != [text.decode()] or len(traces) != 1:
                res.violation('c08-string-reassembly', f'{L}-byte global string, 4 text bytes per argument word: {len(traces)} '
                              f'trace(s), global string {got_s}, expected {text.decode()!r}' + (f' ({exc[1]!r})' if exc else ''),
                              case_of(events))
                return


def scale_lookups(res, ctx, rng, arities):
    """Lookups far into a long window: a call whose thread produces n further records between its START and a lookup (or
    between the chunks of one lookup) still shows that lookup.  Rungs step over 2^16 (vlib/histories.py)."""
    two = sorted(n for n, a in arities.items() if a and a >= 2 and n not in ('BSC_symlinkat', 'BSC_posix_spawn'))
    one = sorted(n for n, a in arities.items() if a == 1) or sorted(H.ONE_PATH_CALLS)
    for n in [n for i, n in enumerate(ctx.pick(H.SCALE_RUNGS_QUICK, H.SCALE_RUNGS_THOROUGH)) if ctx.mine(i)]:
        t1, t2 = ascii_text(rng.randrange(30, 185), 1), straddling_text(rng.randrange(40, 185), 24, 2)
        l1, l2 = H.lookup(0x7001, t1), H.lookup(0x7002, t2)
        # n counts the records of the window up to and including the first record that comes after the filler
        if two and rng.random() < 0.6:
            name = rng.choice(two)
            where = rng.choice(('between the lookups', 'between the chunks of the second lookup'))
            if where == 'between the lookups' or len(l2) < 2:
                nested, pos = l1 + l2, 1 + len(l1)
            else:
                nested, pos = l1 + l2, 2 + len(l1)
            expected = [(t1.decode(), 0x7001), (t2.decode(), 0x7002)]
        else:
            name, where = rng.choice(one), 'before the lookup'
            nested, pos = l1, 1
            expected = [(t1.decode(), 0x7001)]
        seq = H.gen_syscall(rng, name, nested)
        # the record right after the filler is record number n of the window (H.stretched_events inserts before `pos`)
        events, _ = H.stretched_events(seq, pos, n - 1 - pos + len(seq), rng, tid=7)
        check_lookup_history(res, events, expected, f'{name} with {n} same-thread records {where}', enclosing=name,
                             arity=arities[name])
        res.count('scale_lookup_windows')


# ---------------------------------------------------------------------------------------------
# global strings and thread names
# ---------------------------------------------------------------------------------------------

def trace_domain_unrelated(rng):
    c = rng.random()
    if c < 0.3:
        return [H.A('TRACE_DATA_THREAD_TERMINATE', H.NONE, (rng.randrange(1, 99), 0, 0, 0))]
    if c < 0.55:
        return [H.A('TRACE_STRING_PROC_EXIT', rng.choice((H.NONE, H.ALL)), H.name32(b'exiting'))]
    if c < 0.8:
        return [H.A('TRACE_DATA_EXEC', H.NONE, (rng.randrange(1, 99), 1, 2, 0))]
    return H.unrelated(rng, 1)


def string_workload(res, ctx, rng):
    idx = 0
    for L in list(range(0, 201)) + [239, 240, 241, 255, 256, 257, 400, 511, 512, 513]:
        for cls in ('ascii', 'straddle'):
            idx += 1
            if not ctx.mine(idx):
                continue
            text = ascii_text(L, 3) if cls == 'ascii' else straddling_text(L, 16)
            # string ids are addresses of the kernel's string table entries; boundary values included
            sid = 500 + L if (L + (cls == 'ascii')) % 3 else VNODE_ID_BOUNDARIES[(L // 3) % len(VNODE_ID_BOUNDARIES)]
            for mixed in (False, True):
                seq = []
                for a in H.global_string(sid, text):
                    seq.append(a)
                    if mixed:
                        seq += trace_domain_unrelated(rng) if rng.random() < 0.6 else []
                seq += H.dlopen(sid, flags=2)
                events = H.materialize(H.on_thread(9, seq))
                parser, traces, exc = collect(events)
                res.case(tuple((e.debugid, e.data, e.tid) for e in events))
                res.count('histories')
                label = f'global string {cls} {L}B' + (' with same-thread records between chunks' if mixed else '')
                if exc is not None:
                    res.violation(f'c08-raises-{core.exc_name(exc[1])}', f'{label}: {exc[1]!r}', case_of(events))
                    continue
                if any(lone_continuation(t, ('TRACE_STRING_GLOBAL',)) for _, t in traces):
                    res.violation('c08-continuation-record-emits-trace', f'{label}: a continuation record produced a '
                                  f'trace of its own', case_of(events))
                    continue
                got = [(t.vstr, t.str_id) for _, t in traces if type(t).__name__ == 'TraceStringGlobal']
                if got != [(text.decode(), sid)]:
                    res.violation('c08-string-reassembly', f'{label}: string traces {got[:3]} expected '
                                  f'{[(text.decode(), sid)]}', case_of(events))
                    continue
                if text and parser.global_strings.get(sid) != text.decode():
                    res.violation('c08-string-table', f'{label}: global_strings[{sid}] = '
                                  f'{parser.global_strings.get(sid)!r}', case_of(events))
                    continue
                extra = set(parser.global_strings) - {sid}
                if extra:
                    res.violation('c08-string-table-residue', f'{label}: unexpected string ids {sorted(extra)[:4]} '
                                  f'in the string table', case_of(events))
                    continue
                dl = [t for _, t in traces if type(t).__name__ == 'Dlopen']
                if len(dl) != 1 or dl[0].path != text.decode():
                    res.violation('c08-string-consumer', f'{label}: dlopen shows {[d.path for d in dl]}', case_of(events))
                    continue
                res.count('strings_compared')
    idx = 0
    for L in range(0, 64):
        for cls in ('ascii', 'straddle'):
            for prev in (False, True):
                idx += 1
                if not ctx.mine(idx):
                    continue
                text = ascii_text(L, 5) if cls == 'ascii' else straddling_text(L, 32)
                for mixed in (False, True):
                    seq = []
                    for a in H.thread_name(text, prev):
                        seq.append(a)
                        if mixed and rng.random() < 0.7:
                            seq += trace_domain_unrelated(rng)
                    seq.append(H.A('TRACE_DATA_THREAD_TERMINATE', H.NONE, (9, 0, 0, 0)))
                    events = H.materialize(H.on_thread(9, seq))
                    parser, traces, exc = collect(events)
                    res.case(tuple((e.debugid, e.data, e.tid) for e in events))
                    res.count('histories')
                    label = f'thread name {cls} {L}B prev={prev}' + (' with same-thread records between' if mixed else '')
                    if exc is not None:
                        res.violation(f'c08-raises-{core.exc_name(exc[1])}', f'{label}: {exc[1]!r}', case_of(events))
                        continue
                    tn = 'TraceStringThreadnamePrev' if prev else 'TraceStringThreadname'
                    got = [t.name for _, t in traces if type(t).__name__ == tn]
                    if got != [text.decode()]:
                        res.violation('c08-name-reassembly', f'{label}: name traces {got[:3]} expected {[text.decode()]}',
                                      case_of(events))
                        continue
                    term = [t for _, t in traces if type(t).__name__ == 'TraceDataThreadTerminate' and t.tid == 9]
                    if parser.tids_names.get(9) != text.decode() or not term or term[-1].name != text.decode():
                        res.violation('c08-name-table', f'{label}: tids_names[9] = {parser.tids_names.get(9)!r}',
                                      case_of(events))
                        continue
                    res.count('names_compared')


def reuse_workload(res, ctx, rng):
    """One parser, as in a real dump: vnode ids, string ids and thread names are re-used with other texts later in the
    stream (ids are recycled); every item must carry its own text, consumers the most recent announcement."""
    for _ in range(ctx.pick(30, 3000)):
        parser = ev.new_parser()
        ts = [1000]

        def feed(seq, tid=9):
            out = []
            events = H.materialize(H.on_thread(tid, seq), t0=ts[0])
            ts[0] = events[-1].timestamp + 7
            for e in events:
                t = parser.feed(e)
                if t is not None:
                    out.append(t)
            return events, out
        vn = rng.randrange(1, 1 << 40)
        sid = rng.randrange(1, 1 << 30)
        history = []
        try:
            for round_ in range(rng.randrange(2, 6)):
                L = rng.choice((0, 1, 23, 24, 25, 56, 57, 88, 120, 184))
                text = ascii_text(L, round_) if rng.random() < 0.6 else straddling_text(L, 24, round_)
                events, traces = feed(H.gen_syscall(rng, rng.choice(H.ONE_PATH_CALLS), H.lookup(vn, text)))
                history += events
                got = [(t.path, t.vnode_id) for t in traces if type(t).__name__ == 'VfsLookup']
                res.case(('reuse-vnode', vn, text))
                if got != [(text.decode(), vn)]:
                    res.violation('c08-recycled-vnode-id', f'round {round_}: vnode id {vn} looked up again with another path: '
                                  f'{got} expected {[(text.decode(), vn)]}', case_of(history))
                    return
                outer = [t for t in traces if type(t).__name__ != 'VfsLookup']
                if text and (len(outer) != 1 or text.decode() not in quoted(str(outer[0]))):
                    res.violation('c08-recycled-vnode-id', f'round {round_}: enclosing call shows {[str(o) for o in outer]}, '
                                  f'path is {text.decode()!r}', case_of(history))
                    return
                gtext = ascii_text(rng.choice((1, 15, 16, 17, 48, 49, 100, 200)), round_ + 7)
                events, traces = feed(H.global_string(sid, gtext) + H.dlopen(sid))
                history += events
                dl = [t for t in traces if type(t).__name__ == 'Dlopen']
                res.case(('reuse-string', sid, gtext))
                if len(dl) != 1 or dl[0].path != gtext.decode() or parser.global_strings.get(sid) != gtext.decode():
                    res.violation('c08-reannounced-string-id', f'round {round_}: string id {sid} announced again as '
                                  f'{gtext.decode()!r}: consumer shows {[d.path for d in dl]}', case_of(history))
                    return
                name = ascii_text(rng.choice((1, 31, 32, 33, 63)), round_ + 3)
                events, traces = feed(H.thread_name(name) + [H.A('TRACE_DATA_THREAD_TERMINATE', H.NONE, (9, 0, 0, 0))])
                history += events
                term = [t for t in traces if type(t).__name__ == 'TraceDataThreadTerminate']
                res.case(('reuse-name', name))
                if parser.tids_names.get(9) != name.decode() or not term or term[-1].name != name.decode():
                    res.violation('c08-renamed-thread', f'round {round_}: thread renamed to {name.decode()!r}: table holds '
                                  f'{parser.tids_names.get(9)!r}', case_of(history))
                    return
                res.count('reuse_rounds')
        except Exception as x:
            res.violation(f'c08-raises-{core.exc_name(x)}', f'reuse workload: {x!r}', case_of(history))
            return


def run(ctx):
    res = core.Result()
    import random
    H.set_clock(random.Random(ctx.seed * 7919 + ctx.shard))      # coarse time base: records may share a tick
    rng = ctx.rng
    arities = discover_path_decoders(res)
    if len(arities) < 10:
        # discovery itself depends on correct reassembly: fall back to the declared list so that the oracles below
        # still run (and report the violation); the run cannot be 'held' in this state
        res.inconclusive.append(f'only {len(arities)} path-taking decoders discovered')
        arities = {n: None for n in H.ONE_PATH_CALLS + H.TWO_PATH_CALLS + H.NO_GUARD_CALLS}
    lookup_workload(res, ctx, rng, arities)
    if ctx.shard == 0:
        identical_lookups(res, ctx, rng, arities)
    sibling_lookups(res, ctx, rng, arities)
    scale_lookups(res, ctx, rng, arities)
    edge_characters(res, ctx, rng, arities)
    narrow_words(res, ctx, rng, arities)
    string_workload(res, ctx, rng)
    reuse_workload(res, ctx, rng)
    if ctx.shard == 0:
        t = straddling_text(60, 24)
        res.sample({'text': t.decode(), 'bytes': len(t), 'chunks': [(q, d.hex()) for q, d in wire.lookup_chunks(7, t)]})
        res.sample({'path_taking_decoders': len(arities), 'example': dict(list(arities.items())[:6])})
    res.assumptions += ['texts contain no NUL, no double quote and are valid UTF-8 as a whole (a character may straddle '
                        'a record boundary)', 'thread names are at most 63 bytes (kernel_debug_string_simple)']
    res.require('lookups_compared', 50)
    res.require('strings_compared', 10)
    res.require('names_compared', 10)
    res.require('enclosing_calls_compared', 10)
    res.require('reuse_rounds', 10)
    res.require('lookup_histories_through_a_dump', 10)
    res.require('identical_lookup_windows', 8)
    res.require('sibling_lookup_windows', 40)
    res.require('lookups_overlapped_by_another_window', 40)
    res.require('scale_lookup_windows', 4)
    res.require('edge_character_texts', 2000)
    res.require('narrow_word_lookups', 20)
    res.require('narrow_word_strings', 20)
    res.require('lookups_with_boundary_vnode_id', 10)
    return res


def finalize(res):
    if isinstance(res.notes.get('path_taking_decoders'), dict):
        res.notes['path_taking_decoders'] = dict(sorted(res.notes['path_taking_decoders'].items()))


def replay(case, ctx):
    res = core.Result()
    events = [ev.ev_from_case(c) for c in case['events']]
    parser, traces, exc = collect(events)
    if exc is not None:
        res.violation(f'c08-raises-{core.exc_name(exc[1])}', repr(exc[1]), case)
    for i, t in traces:
        print(f'  trace at event {i}: {type(t).__name__}: {str(t)!r} ({len(t.ktraces)} events)')
        if lone_continuation(t, ('VFS_LOOKUP', 'TRACE_STRING_GLOBAL')):
            res.violation('c08-continuation-record-emits-trace', f'continuation record at {i} produced {str(t)!r}', case)
    return res
