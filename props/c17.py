"""C17 - every registered decoder is reachable; X and X_nocancel decode alike.

Static part (exhaustive over the observed tables): every registered name occurs in the bundled code table (own
parser) under an id with clear qualifier bits, no name is claimed by two families, every X_nocancel has its base X.
Dynamic part: for every registered name an event with the bundled id is fed to the real parser and a
sys.monitoring PY_START monitor must see the registered function entered; for each twin pair the renderings over
many START/END tuples and lookups must be identical up to the '_nocancel' suffix and enter the same function.
"""
import sys

from vlib import core, ev, domain, histories as H

LEVEL = 'exploration'
RULE = ('exhaustive over every entry of the decoder tables and of the bundled code table; for each twin pair K in-domain '
        'START tuples x END tuples (success, errno, huge) x 0..2 lookups; non-trivial = registered name whose function '
        'was observed entered / twin rendering pair compared; distinct = distinct (name, words) cases')
QUICK_SHARDS = 1
THOROUGH_SHARDS = 8
TOOL = 5


class EntryMonitor:
    """Which code objects were entered (sys.monitoring PY_START, all code under pykdebugparser/)."""

    def __init__(self):
        self.entered = set()

    def __enter__(self):
        mon = sys.monitoring
        try:
            mon.use_tool_id(TOOL, 'verif-c17')
        except ValueError:
            mon.free_tool_id(TOOL)
            mon.use_tool_id(TOOL, 'verif-c17')

        def on_start(code, offset):
            if '/pykdebugparser/' in code.co_filename:
                self.entered.add(code)
                return None
            return mon.DISABLE
        mon.register_callback(TOOL, mon.events.PY_START, on_start)
        mon.set_events(TOOL, mon.events.PY_START)
        mon.restart_events()
        return self

    def __exit__(self, *a):
        mon = sys.monitoring
        mon.set_events(TOOL, 0)
        mon.register_callback(TOOL, mon.events.PY_START, None)
        mon.free_tool_id(TOOL)
        return False


def underlying(f):
    while hasattr(f, 'func'):
        f = f.func
    return f


def families():
    from pykdebugparser.trace_handlers import bsd, dyld, fsystem, mach, perf, trace, turnstile
    return {'bsd': bsd.handlers, 'dyld': dyld.handlers, 'fsystem': fsystem.handlers, 'mach': mach.handlers,
            'perf': perf.handlers, 'trace': trace.handlers, 'turnstile': turnstile.handlers}


def static_part(res):
    codes = ev.bundled_codes()
    n2i = ev.name2ids()
    parser = ev.new_parser()
    fams = families()
    names = sorted(parser.handlers)
    res.counters['registered_names'] = len(names)
    for name in names:
        res.case(('static', name))
        if name not in n2i:
            res.violation('c17-unreachable-name', f'decoder {name!r} is registered but the bundled code table has no such '
                          f'name: it can never be reached', {'name': name})
            continue
        for i in n2i[name]:
            if i & 3:
                res.violation('c17-qualifier-bits', f'{name} is listed under id {hex(i)} whose qualifier bits are set',
                              {'name': name})
        res.count('names_in_code_table')
    # family tables: pairwise disjoint, and their union is the merged table
    seen = {}
    for fam, table in fams.items():
        for name in table:
            if name in seen:
                res.violation('c17-name-in-two-families', f'{name} is claimed by {seen[name]} and {fam}', {'name': name})
            seen[name] = fam
    if set(seen) != set(names):
        res.violation('c17-merged-table', f'merged table differs from the union of the families: '
                      f'{sorted(set(seen) ^ set(names))[:5]}', {})
    res.count('family_entries', len(seen))
    # twins
    for name in names:
        if name.endswith('_nocancel'):
            base = name[:-len('_nocancel')]
            res.count('nocancel_names')
            if base not in parser.handlers:
                res.violation('c17-base-not-registered', f'{name} is decoded but its base call {base} is not registered'
                              + (' although the bundled table lists it' if base in n2i else ''), {'name': name})
            elif underlying(parser.handlers[base]) is not underlying(parser.handlers[name]):
                res.violation('c17-twin-different-logic', f'{name} and {base} are bound to different functions '
                              f'({underlying(parser.handlers[name]).__name__} / {underlying(parser.handlers[base]).__name__})',
                              {'name': name})
    # ids whose name is registered must decode: an id listed twice with different names is the table's business (C19)
    res.count('code_table_entries', len(codes))
    return names, parser


def twin_texts_agree(a, b):
    """b is a with '_nocancel' appended to the call NAME (the identifier before the first parenthesis) and nothing else -
    whatever the arguments' own text contains."""
    ia, ib = a.find('('), b.find('(')
    return ia > 0 and ib > 0 and b[:ib] == a[:ia] + '_nocancel' and b[ib:] == a[ia:] and not a[:ia].endswith('_nocancel')


def render(name, start, end, lookups=()):
    nested = []
    for j, p in enumerate(lookups):
        nested += H.lookup(0x30 + j, p)
    seq = H.syscall(name, start, end, nested)
    parser = ev.new_parser()
    out = []
    for e in H.materialize(H.on_thread(6, seq)):
        t = parser.feed(e)
        if t is not None and type(t).__name__ != 'VfsLookup':
            out.append(str(t))
    return out


def dynamic_part(res, ctx, names):
    rng = ctx.rng
    n2i = ev.name2ids()
    # reachability: one event per registered name, the registered function must be entered
    for idx, name in enumerate(names):
        if name not in n2i or not ctx.mine(idx):
            continue
        parser = ev.new_parser()
        fn = underlying(parser.handlers[name])
        if name in domain.TEXT_PAYLOAD:
            events = [ev.mk(1000, name, 3, domain.text32(rng) if name not in ('VFS_LOOKUP', 'TRACE_STRING_GLOBAL')
                            else b'\x01' * 16 + b'text' + b'\x00' * 12, 6)]
        else:
            events = H.materialize(H.on_thread(6, H.syscall(name, domain.gen_words(rng, name, 'S'),
                                                            domain.gen_words(rng, name, 'E'))))
        with EntryMonitor() as mon:
            try:
                for e in events:
                    parser.feed(e)
            except Exception as x:
                res.violation(f'c17-raises-{core.exc_name(x)}', f'{name}: {x!r}', {'name': name})
                continue
        res.case(('reach', name))
        if fn.__code__ in mon.entered:
            res.count('functions_observed_entered')
        else:
            res.violation('c17-function-not-entered', f'{name} (id {hex(n2i[name][0])}): registered function '
                          f'{fn.__name__} was not entered when an event with the bundled id was fed', {'name': name})
    # twins: identical rendering up to the suffix
    twins = [n for n in names if n.endswith('_nocancel') and n[:-9] in names and n in n2i and n[:-9] in n2i]
    for idx, name in enumerate(twins):
        if not ctx.mine(idx):
            continue
        base = name[:-9]
        for k in range(ctx.pick(12, 2000)):
            start = domain.gen_words(rng, base, 'S')
            end = domain.gen_words(rng, base, 'E')
            end[0] = rng.choice((0, 0, 0, 1, 4, 35, 60, 107, 1 << 31, (1 << 64) - 1))
            lookups = [rng.choice(H.PATHS) for _ in range(rng.choice((0, 0, 1, 2)))]
            if k % 3 == 0:
                # texts that look like the output's own syntax: the call's name, the suffix, separators, quotes
                call = base[4:]
                lookups = [rng.choice((f'/usr/bin/{call}', f'/opt/{call}_nocancel/{call}', f'{call}(', f'/tmp/a, {call}',
                                       f'/x/_nocancel', f'/private/etc/ssl/{call}ssl.cnf')).encode()] + lookups[:1]
                res.count('twin_renderings_with_the_call_name_in_a_path')
            try:
                a = render(base, start, end, lookups)
                b = render(name, start, end, lookups)
            except Exception as x:
                res.violation(f'c17-raises-{core.exc_name(x)}', f'{name}: {x!r}', {'name': name, 'start': start, 'end': end})
                break
            res.case((name, tuple(start), tuple(end), tuple(lookups)))
            res.count('twin_renderings_compared')
            if len(a) != 1 or len(b) != 1 or not twin_texts_agree(a[0], b[0]):
                res.violation('c17-twin-rendering', f'{base}: {a} vs {name}: {b} on start={start} end={end}',
                              {'name': name, 'start': start, 'end': end})
                break
        # small negative numbers in every word of the START and of the END (domain.SENTINEL_WORDS: -1 .. -8 as 32- and as
        # 64-bit values - AT_FDCWD, invalid descriptors ...): a decoder that names one of them still serves both twins
        for pos in range(8):
            for w in domain.SENTINEL_WORDS:
                start = domain.gen_words(rng, base, 'S')
                end = [0] + domain.gen_words(rng, base, 'E')[1:]
                if pos < 4:
                    if ('S', pos) in domain.TABLE.get(base, {}):
                        continue
                    start[pos] = w
                else:
                    if ('E', pos - 4) in domain.TABLE.get(base, {}):
                        continue
                    end[pos - 4] = w
                try:
                    a = render(base, start, end, [H.PATHS[0]])
                    b = render(name, start, end, [H.PATHS[0]])
                except Exception as x:
                    res.violation(f'c17-raises-{core.exc_name(x)}', f'{name}: {x!r}', {'name': name, 'start': start, 'end': end})
                    break
                res.case((name, 'sentinel', pos, w))
                res.count('twin_sentinel_renderings_compared')
                if len(a) != 1 or len(b) != 1 or not twin_texts_agree(a[0], b[0]):
                    res.violation('c17-twin-rendering', f'{base}: {a} vs {name}: {b} on start={[hex(x) for x in start]} '
                                  f'end={[hex(x) for x in end]}', {'name': name, 'start': start, 'end': end})
                    break
        # the call reported by ONE record (qualifier START|END at once, or none at all - what a tracepoint filtered down
        # to its completion, or a capture tool that merges the pair, leaves): it takes another route to the decoder, and
        # both twins take it alike
        for q in (3, 0):
            for k in range(ctx.pick(6, 200)):
                words = domain.gen_words(rng, base, 'S')
                if k % 2:
                    words[0] = rng.choice((0, 0, 2, 4, 35))
                outcome = []
                for nm in (base, name):
                    parser = ev.new_parser()
                    try:
                        t = parser.feed(ev.mk(1000, nm, q, words, 6))
                        outcome.append(('ok', [str(t)] if t is not None else []))
                    except Exception as x:
                        outcome.append(('raised', type(x).__name__))
                res.case((name, 'lone record', q, tuple(words)))
                res.count('twin_lone_record_renderings_compared')
                a, b = outcome
                same = (a[0] == b[0] == 'raised' and a[1] == b[1]) or \
                       (a[0] == b[0] == 'ok' and len(a[1]) == len(b[1]) == 1 and twin_texts_agree(a[1][0], b[1][0]))
                if not same:
                    res.violation('c17-twin-rendering', f'{base} / {name} reported by one record with qualifier {q} and words '
                                  f'{[hex(x) for x in words]}: {a} vs {b}', {'name': name, 'start': words, 'end': words})
                    break
        # both twins open on ONE thread at the same time, their windows overlapping without nesting (START X, START X_nocancel,
        # END X, END X_nocancel and the other way round - what a capture with a wrapped buffer or merged records looks like):
        # each is still decoded, each as it is alone
        for order in ('base first', 'twin first'):
            start, start2 = domain.gen_words(rng, base, 'S'), domain.gen_words(rng, base, 'S')
            end = [0] + domain.gen_words(rng, base, 'E')[1:]
            first, second = (base, name) if order == 'base first' else (name, base)
            items = [H.A(first, H.START, start), H.A(second, H.START, start2), H.A(first, H.END, end), H.A(second, H.END, end)]
            try:
                parser = ev.new_parser()
                got = [str(t) for t in (parser.feed(e) for e in H.materialize(H.on_thread(6, items))) if t is not None]
                alone = render(first, start, end) + render(second, start2, end)
            except Exception as x:
                res.violation(f'c17-raises-{core.exc_name(x)}', f'{base} / {name} overlapping on one thread: {x!r}', {'name': name})
                break
            res.case((name, 'overlap', order))
            res.count('twin_windows_overlapping_on_one_thread')
            if got != alone:
                res.violation('c17-twin-rendering', f'{base} and {name} open at the same time on one thread ({order}, closed in '
                              f'opening order): decoded {got}, each alone decodes {alone}', {'name': name, 'start': start, 'end': end})
                break
        # companion records the kernel logs INSIDE the call under a name that extends the call's name (pread_extended_info,
        # mmap_extended_info ...: the bundled table lists them; the kernel logs them under the BASE call's number for the
        # non-cancellable variant too), their words taken from the call's own START words in every arrangement plus a few
        # foreign ones: whatever a decoder makes of such a record, it makes of it for both twins
        import itertools
        table_names = set(ev.bundled_codes().values())
        stems = {base, base.replace('BSC_sys_', 'BSC_', 1), base.replace('BSC_', 'BSC_sys_', 1)}
        companions = sorted(n for n in table_names if n not in (base, name) and any(n.startswith(st + '_') for st in stems)
                            and n in n2i and not n.endswith('_nocancel'))
        for comp in companions:
            start = domain.gen_words(rng, base, 'S')
            end = [0] + domain.gen_words(rng, base, 'E')[1:]
            arrangements = list(itertools.permutations(start, 4))
            rng.shuffle(arrangements)
            pool = arrangements[:ctx.pick(6, 24)] + [(start[0], start[2], rng.getrandbits(31), rng.getrandbits(32)),
                                                      (start[0], start[1], rng.getrandbits(31), rng.getrandbits(32)),
                                                      (start[0], start[2], 1, start[3]), (start[0], start[2], 0, start[3] ^ 0x10)]
            for words in pool:
                outcome = []
                for nm in (base, name):
                    seq = H.syscall(nm, start, end, [H.A(comp, H.NONE, tuple(words))])
                    parser = ev.new_parser()
                    try:
                        outs = [str(t) for t in (parser.feed(e) for e in H.materialize(H.on_thread(6, seq)))
                                if t is not None and t.ktraces[0].eventid == ev.eid(nm)]
                        outcome.append(('ok', outs))
                    except Exception as x:
                        outcome.append(('raised', type(x).__name__))
                res.case((name, 'companion', comp, tuple(words)))
                res.count('twin_renderings_with_a_companion_record')
                a, b = outcome
                same = (a[0] == b[0] == 'raised' and a[1] == b[1]) or \
                       (a[0] == b[0] == 'ok' and len(a[1]) == len(b[1]) == 1 and twin_texts_agree(a[1][0], b[1][0]))
                if not same:
                    res.violation('c17-twin-rendering', f'{base} / {name} with a nested {comp} record {[hex(w) for w in words]} '
                                  f'(START {[hex(w) for w in start]}): {a} vs {b}', {'name': name, 'start': start, 'end': end})
                    break
        # words outside the enum a decoder names: whatever happens must happen to both twins alike (the same exception,
        # or renderings that differ by the suffix only)
        for idx2, allowed in domain.enum_positions(base).items():
            outside = [v for v in (11, 39, 46, 47, 86, 89, 106, 200, 1 << 20, (1 << 64) - 1) if v not in allowed][:6]
            for v in outside:
                start = domain.gen_words(rng, base, 'S')
                start[idx2] = v
                end = [0, 5, 0, 0]
                outcome = []
                for nm in (base, name):
                    try:
                        outcome.append(('ok', render(nm, start, end)))
                    except Exception as x:
                        outcome.append(('raised', type(x).__name__))
                res.case((name, 'outside-enum', v))
                res.count('twin_out_of_enum_comparisons')
                a, b = outcome
                same = (a[0] == b[0] == 'raised' and a[1] == b[1]) or \
                       (a[0] == b[0] == 'ok' and len(a[1]) == len(b[1]) == 1 and twin_texts_agree(a[1][0], b[1][0]))
                if not same:
                    res.violation('c17-twin-rendering', f'{base} / {name} with word {idx2} = {v} (outside the named enum): '
                                  f'{a} vs {b}', {'name': name, 'start': start, 'end': end})
                    break
        res.count('twin_pairs')


def front_end_twins(res, ctx, names):
    """The twins through the public front end: one dump (both container versions) holding every twin pair, decoded by
    traces() and formatted_traces() under the bundled table and under an explicit copy of it."""
    import io
    from pykdebugparser.pykdebugparser import PyKdebugParser
    from vlib import wire, gen
    rng = ctx.rng
    n2i = ev.name2ids()
    twins = [n for n in names if n.endswith('_nocancel') and n[:-9] in names and n in n2i and n[:-9] in n2i]
    seq, expect = [], []
    for name in twins:
        base = name[:-9]
        start = domain.gen_words(rng, base, 'S')
        end = domain.gen_words(rng, base, 'E')
        end[0] = rng.choice((0, 0, 9, 35))
        seq += H.syscall(base, start, end) + H.syscall(name, start, end)
        expect.append((base, name))
    events = H.materialize(H.on_thread(6, seq))
    records = gen.events_to_records(events)
    entries = [(6, 100, b'proc0', b'')]
    files = {'v2': wire.v2_file(entries, 8, records),
             'v3': wire.V3Spec(entries=entries, chunks=gen.split_chunks(rng, records, 3)).build()}
    # a front-end object that served a request under a table WITHOUT the base calls (nothing of it may stick)
    used = PyKdebugParser()
    used.color = False
    used.show_timestamp = used.show_tid = used.show_process = False
    try:
        list(used.traces(io.BytesIO(files['v2']), {k: v for k, v in ev.bundled_codes().items() if v.endswith('_nocancel')}))
    except Exception as x:
        res.violation(f'c17-front-end-raises-{core.exc_name(x)}', f'request under a reduced table: {x!r}', {'file': files['v2']})
        return
    if ctx.shard == 0:
        # the command line on a pipe and on pseudo terminals prints the same twin lines (nothing cut to a window width)
        from vlib import cli
        if not cli.terminal_agrees(res, 'c17', files['v2'], f'{len(expect)} twin pairs', columns=(80, 100, 200)):
            return
    for kind, data in files.items():
        for table in (None, dict(ev.bundled_codes()), 'used-object'):
            for method in ('traces', 'formatted_traces'):
                p = PyKdebugParser()
                p.color = False
                p.show_timestamp = p.show_tid = p.show_process = False
                if table == 'used-object':
                    p, table = used, None
                try:
                    out = [str(t) if method == 'traces' else t for t in getattr(p, method)(io.BytesIO(data), table)]
                except Exception as x:
                    res.violation(f'c17-front-end-raises-{core.exc_name(x)}', f'{method} on a {kind} dump: {x!r}', {'file': data})
                    return
                res.count('front_end_twin_listings')
                if len(out) != 2 * len(expect):
                    res.violation('c17-front-end-twin-missing', f'{method} on a {kind} dump of {len(expect)} twin pairs '
                                  f'({"bundled table by default" if table is None else "explicit copy of the bundled table"}): '
                                  f'{len(out)} traces instead of {2 * len(expect)}', {'file': data})
                    return
                for (base, name), a, b in zip(expect, out[0::2], out[1::2]):
                    res.case((kind, method, table is None, name))
                    if not twin_texts_agree(a, b):
                        res.violation('c17-twin-rendering', f'{method} on a {kind} dump: {base}: {a!r} vs {name}: {b!r}',
                                      {'file': data})
                        return


def odd_parsers_first(res):
    """Other users of the library in the same process must not change what is registered: parsers with an empty,
    a reduced (only the _nocancel names) and a renamed code table are created and used before the audit."""
    from pykdebugparser.traces_parser import TracesParser
    codes = ev.bundled_codes()
    tables = [{}, {k: v for k, v in codes.items() if v.endswith('_nocancel')}, {k: 'X' + v for k, v in codes.items()},
              {k | 1: v for k, v in codes.items()}]
    for t in tables:
        try:
            p = TracesParser(t, {}, {})
            for e in H.materialize(H.on_thread(6, H.syscall('BSC_read_nocancel', (3, 4, 5, 6), (0, 5, 0, 0)))):
                p.feed(e)
        except Exception as x:
            res.violation(f'c17-custom-table-raises-{core.exc_name(x)}', f'parser with a custom code table: {x!r}', {})
        res.count('custom_table_parsers_created_first')
        # a parser created afterwards with the bundled table must register exactly the union of the family tables
        union = set()
        for table in families().values():
            union |= set(table)
        now = set(ev.new_parser().handlers)
        if now != union:
            res.violation('c17-registration-depends-on-other-parsers', f'after a parser with a custom code table '
                          f'({len(t)} entries) was used, a new parser registers {len(now)} decoders instead of {len(union)}; '
                          f'missing e.g. {sorted(union - now)[:4]}', {})
            return


def run(ctx):
    res = core.Result()
    odd_parsers_first(res)
    if ctx.shard == 0:
        names, _ = static_part(res)
        res.exhaustive = True
    else:
        names = sorted(ev.new_parser().handlers)
    import os
    if os.environ.get('VERIF_FLAVOUR'):
        # an interpreter-flavour re-run of shard 0: it repeats shard 0's share of the decoders, so its count of table names
        # must not be added to the total the entered functions are compared with
        res.counters.pop('names_in_code_table', None)
    dynamic_part(res, ctx, names)
    if ctx.shard == 0:
        front_end_twins(res, ctx, names)
    if ctx.shard == 0:
        try:
            res.sample({'name': 'BSC_read_nocancel', 'rendering': render('BSC_read_nocancel', (3, 0x1000, 64, 0), (0, 64, 0, 0)),
                        'base': render('BSC_read', (3, 0x1000, 64, 0), (0, 64, 0, 0))})
        except Exception as x:
            res.violation(f'c17-raises-{core.exc_name(x)}', f'BSC_read_nocancel / BSC_read: {x!r}', {'name': 'BSC_read_nocancel'})
        res.sample({'registered_names': len(names), 'first': names[:5]})
    res.assumptions += ['the bundled table is read with the own parser of vlib/ev.py', 'twin words are in-domain']
    res.require('functions_observed_entered', 10)
    res.require('twin_renderings_compared', 10)
    res.require('front_end_twin_listings', 8)
    return res


def finalize(res):
    if res.counters.get('functions_observed_entered', 0) < res.counters.get('names_in_code_table', 0):
        if not any(v.key.startswith('c17-') for v in res.violations):
            res.inconclusive.append('not every registered function was observed entered')


def replay(case, ctx):
    res = core.Result()
    static_part(res)
    return res
