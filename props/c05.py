"""C05 - per-thread results are invariant under interleaving of threads.

A 'schedule' here is the order in which the kernel's per-CPU buffers were merged into the stream, i.e. an
order-preserving interleaving of per-thread programs; it is driven deterministically (all interleavings of small
program sets, plus adversarial and random ones for larger sets) rather than left to a scheduler.  Monitor: the
traces emitted by the real TracesParser are recorded per thread at the feed boundary and compared with the
baseline obtained by running each program alone; learned process names are compared with the union of baselines.
"""
from vlib import core, ev, domain, histories as H

LEVEL = 'exploration'
RULE = ('program sets = 2-4 per-thread programs (<= 8 events each) built from kernel-shaped templates with disjoint keys '
        'for the tables that are shared by design (string ids, pids, argument tids); schedules = every '
        'order-preserving interleaving when there are <= 3000, otherwise round-robin, reverse round-robin, '
        '"split every pair" and random ones; non-trivial = schedule different from plain concatenation whose '
        'per-thread traces and learned names were compared with the baseline; distinct = distinct merged sequences')
QUICK_SHARDS = 8
THOROUGH_SHARDS = 16
THOROUGH_TIMEOUT = 5400      # (24 min alone on 16 cores; the margin is for a loaded machine - a watchdog firing is INCONCLUSIVE, never a verdict)
MAX_ALL = 3000


# decoders whose *text* reads, by design, tables keyed by an argument (another thread's id): their rendering is the
# statement's carve-out, but their existence and event list are still per-thread results
CROSS_READERS = {'TraceDataThreadTerminate', 'TraceDataThreadTerminatePid'}


def trace_key(t):
    text = '<reads a by-design shared table>' if type(t).__name__ in CROSS_READERS else str(t)
    return (type(t).__name__, text, tuple((e.tid, e.debugid, e.data) for e in t.ktraces))


def run_stream(items, step=7):
    """items: [(tid, abstract event)].  Returns ({tid: [trace keys]}, pids_names, exception)."""
    parser = ev.new_parser()
    per = {}
    for e in H.materialize(items, step=step):
        try:
            t = parser.feed(e)
            if t is not None:
                per.setdefault(t.ktraces[0].tid, []).append(trace_key(t))
        except Exception as x:
            return per, dict(parser.pids_names), x
    return per, dict(parser.pids_names), None


def run_stream_via_file(items, kind, rng, step=7):
    """The same merged stream written into a dump (empty thread map, records split over chunks for version 3) and read
    by the public front end."""
    import io
    from vlib import wire, gen
    from pykdebugparser.pykdebugparser import PyKdebugParser
    events = H.materialize(items, step=step)
    records = gen.events_to_records(events)
    data = wire.v2_file([], 8, records) if kind == 'v2' else \
        wire.V3Spec(entries=[], chunks=gen.split_chunks(rng, records, rng.choice((1, 2, 3, 5)))).build()
    from vlib import stream
    p = stream.front_end(rng)          # time base, zone, columns, colour set at random: presentation only
    per = {}
    try:
        for t in p.traces(wire.stream(data)):
            per.setdefault(t.ktraces[0].tid, []).append(trace_key(t))
    except Exception as x:
        return per, dict(p.pids_names), x
    return per, dict(p.pids_names), None


def gen_programs(rng, pairs_everywhere):
    nthreads = rng.choice((2, 2, 3, 3, 4))
    shared_children = rng.random() < 0.5
    programs, tids = [], []
    kernel_thread = rng.randrange(nthreads) if rng.random() < 0.35 else None
    colliding = rng.choice([x for x in range(nthreads) if x != kernel_thread]) if rng.random() < 0.35 else None
    for t in range(nthreads):
        tid = 10 + t
        keyspace = {'tid': tid, 'pid': 100 * (t + 1), 'sid': 1000 * (t + 1)}
        if t == kernel_thread:
            keyspace['pid'] = 0      # pid 0 is the kernel's: kernel threads are announced and named with it
        if t == colliding:
            # pids and thread ids share a number range: this thread's pid equals another traced thread's id
            keyspace['pid'] = 10 + (t + 1) % nthreads
        if shared_children:
            # several threads announce / sample the same child thread ids (the tid->pid table is shared by design and
            # read only by decoders whose text is the carve-out); the pids they name stay disjoint
            keyspace['child_pool'] = [5001, 5002]
        prog = []
        if pairs_everywhere:
            prog += H.scenario(rng, keyspace, kinds=('newthread', 'exec'))
        budget = rng.choice((3, 4, 6, 8))
        for _ in range(6):
            if len(prog) >= budget:
                break
            sc = H.scenario(rng, keyspace, private_keys=True)
            if len(prog) + len(sc) <= 8:
                prog += sc
        if not prog:
            prog = H.scenario(rng, keyspace, kinds=('exec',))
        programs.append(prog)
        tids.append(tid)
    # records that *name* another traced thread (reaper-style terminate records, context-switch records): they belong to
    # the emitting thread's program and must not disturb the named thread's results
    all_tids = [10 + t for t in range(nthreads)]
    for t in range(nthreads):
        if rng.random() < 0.5 and len(programs[t]) < 9:
            other = rng.choice([x for x in all_tids if x != 10 + t])
            rec = rng.choice((H.A('TRACE_DATA_THREAD_TERMINATE', H.NONE, (other, 0, 0, 0)),
                              H.thd_data(100 * (t + 1), rng.choice((5001, 5002, other))),
                              H.A('TRACE_DATA_NEWTHREAD', H.NONE, (rng.choice((5001, 5002)), 100 * (t + 1) + 1, 0, 0)),
                              H.A('PERF_THD_CSwitch', H.NONE, (other, 100 * (t + 1), 0, 0)),
                              H.A('MACH_MKRUNNABLE', H.NONE, (other, 31, 0, 1)),
                              H.A('MACH_STKHANDOFF', H.NONE, (0, other, 31, 31))))
            programs[t].insert(rng.randrange(len(programs[t]) + 1), rec)
    # a sampler on another thread reports a freshly announced child under the SAME pid its parent announces (both are
    # true statements about the child; only the tid -> pid table is touched)
    announced = [(t, a[2][0], a[2][1]) for t in range(nthreads) for a in programs[t]
                 if a[0] == 'TRACE_DATA_NEWTHREAD' and not isinstance(a[2], bytes)]
    if announced and rng.random() < 0.5:
        t, child, pid = rng.choice(announced)
        o = rng.choice([x for x in range(nthreads) if x != t])
        if len(programs[o]) < 10:
            programs[o].insert(rng.randrange(len(programs[o]) + 1), H.thd_data(pid, child))
    if rng.random() < 0.3:
        # a name string whose data record is missing (tracing began between the two records) on a thread that another
        # thread's new-thread record maps to a pid: the orphan string teaches nothing, whatever the merge
        t = rng.randrange(nthreads)
        o = rng.choice([x for x in range(nthreads) if x != t])
        idx = next((i for i, a in enumerate(programs[t]) if a[0] in ('TRACE_DATA_NEWTHREAD', 'TRACE_DATA_EXEC')), None)
        if idx is not None:
            del programs[t][idx]
        elif len(programs[t]) < 10:
            programs[t].insert(0, H.A(rng.choice(('TRACE_STRING_EXEC', 'TRACE_STRING_NEWTHREAD')), rng.choice((H.NONE, H.ALL)),
                                      H.name32(b'orphan-name')))
        if len(programs[o]) < 10:
            programs[o].insert(rng.randrange(len(programs[o]) + 1),
                               H.A('TRACE_DATA_NEWTHREAD', H.NONE, (10 + t, 100 * (o + 1), 0, 0)))
    if colliding is not None:
        victim = (colliding + 1) % nthreads
        if len(programs[colliding]) < 10:
            programs[colliding].insert(rng.randrange(len(programs[colliding]) + 1),
                                       H.A('TRACE_DATA_THREAD_TERMINATE_PID', H.NONE, (10 + victim, 9, 0, 0)))
        if not any(a[0] in ('TRACE_DATA_NEWTHREAD', 'TRACE_DATA_EXEC') for a in programs[victim]) and len(programs[victim]) < 9:
            programs[victim] = programs[victim] + H.exec_pair(100 * (victim + 1), b'image-of-%d' % victim)
    if kernel_thread is not None:
        # the kernel thread announces a child under pid 0 while another thread's sampler / new-thread record maps the
        # kernel thread itself to that other thread's (non-zero) pid
        kt = kernel_thread
        if not any(a[0] == 'TRACE_DATA_NEWTHREAD' for a in programs[kt]) and len(programs[kt]) < 9:
            programs[kt] = programs[kt] + H.newthread_pair(7000 + kt, 0, b'kernel_task')
        o = rng.choice([x for x in range(nthreads) if x != kt])
        if len(programs[o]) < 10:
            rec = rng.choice((H.thd_data(100 * (o + 1), 10 + kt), H.A('TRACE_DATA_NEWTHREAD', H.NONE, (10 + kt, 100 * (o + 1), 0, 0))))
            programs[o].insert(rng.randrange(len(programs[o]) + 1), rec)
    if rng.random() < 0.35 and nthreads >= 2:
        # two processes of the same NAME (two shells, two helpers) under different pids, announced by different threads;
        # one of the threads later reports that a process of that name exits.  A name is a text, not a key: what a
        # thread learned from its own pair is its own
        a, b = rng.sample(range(nthreads), 2)
        text = rng.choice((b'sh', b'helper', b'launchd'))
        for t in (a, b):
            if len(programs[t]) < 9:
                programs[t] = programs[t] + H.exec_pair(100 * (t + 1) + 7, text, rng.choice((H.NONE, H.ALL)))
        if len(programs[b]) < 11:
            programs[b] = programs[b] + [H.A('TRACE_STRING_PROC_EXIT', rng.choice((H.NONE, H.ALL)), H.name32(text))]
    return programs, tids


def split_every_pair(programs):
    """Adversarial merge: advance the threads in lock-step one event at a time, so that every thread's DATA record
    is followed by the other threads' DATA records before its own STRING record."""
    return H.round_robin(programs)


def check_set(res, ctx, rng, programs, tids, n_random=None):
    baselines, base_names = {}, {}
    # the time base is coarse: in a third of the sets every record of the capture carries the same timestamp (then any
    # interleaving is a legal merge of the per-CPU buffers); the same timestamps are used for the baselines
    # (... or 7 ticks apart, or hours apart: a capture of a quiet machine)
    step = rng.choice((0, 7, 7, 10 ** 11))
    if step == 0:
        res.count('program_sets_on_one_tick')
    for p, tid in zip(programs, tids):
        per, names, exc = run_stream(H.on_thread(tid, p), step)
        if exc is not None:
            res.violation(f'c05-baseline-raises-{core.exc_name(exc)}', f'program of thread {tid} alone raised {exc!r}',
                          {'programs': programs_case(programs, tids)})
            return
        baselines[tid] = per.get(tid, [])
        foreign = [k for k in per if k != tid]
        if foreign:
            res.violation('c05-foreign-thread-trace', f'program of thread {tid} alone produced traces of threads {foreign}',
                          {'programs': programs_case(programs, tids)})
            return
        base_names.update(names)
    lengths = [len(p) for p in programs]
    total = H.count_interleavings(lengths)
    if total <= MAX_ALL:
        schedules = H.all_interleavings(programs)
        res.count('program_sets_exhaustively_scheduled')
    else:
        schedules = [H.round_robin(programs), H.round_robin(programs, reverse=True)] + \
                    [H.random_interleaving(rng, programs) for _ in range(ctx.pick(60, 300) if n_random is None else n_random)]
    n_sched = 0
    for order in schedules:
        n_sched += 1
        items = [(tids[t], programs[t][i]) for t, i in order]
        switches = sum(1 for a, b in zip(order, order[1:]) if a[0] != b[0])
        res.case(tuple(order), nontrivial=switches >= len(programs))
        res.count('schedules_executed')
        # did this schedule put another thread's record between a DATA record and its STRING record?
        for j in range(len(items) - 1):
            code = items[j][1][0]
            if code in ('TRACE_DATA_NEWTHREAD', 'TRACE_DATA_EXEC') and items[j + 1][0] != items[j][0]:
                res.count('schedules_splitting_a_pair')
                break
        via = None
        if (n_sched % 9 == 0 and len(items) < 400) or n_sched == 2:
            via = 'v3' if n_sched % 2 == 0 else 'v2'
            per, names, exc = run_stream_via_file(items, via, rng, step)
            res.count('schedules_through_a_dump')
        else:
            per, names, exc = run_stream(items, step)
        case = {'programs': programs_case(programs, tids), 'order': [list(o) for o in order], 'via': via}
        if exc is not None:
            res.violation(f'c05-raises-{core.exc_name(exc)}', f'schedule raised {exc!r} although every program alone '
                          f'is processed', case)
            return
        for tid in tids:
            if per.get(tid, []) != baselines[tid]:
                got, exp = per.get(tid, []), baselines[tid]
                k = next((i for i, (a, b) in enumerate(zip(got, exp)) if a != b), min(len(got), len(exp)))
                res.violation('c05-per-thread-traces', f'thread {tid}: trace {k} differs under interleaving: '
                              f'{(got[k][0], got[k][1]) if k < len(got) else None} vs baseline '
                              f'{(exp[k][0], exp[k][1]) if k < len(exp) else None} ({len(got)} vs {len(exp)} traces)', case)
                return
        if names != base_names:
            res.violation('c05-learned-names', f'process names learned under interleaving {names} differ from the union '
                          f'of the per-thread baselines {base_names}', case)
            return
    res.count('program_sets')
    res.count('per_thread_comparisons', n_sched * len(tids))


def census(res, ctx, rng):
    """Every code of the bundled table, once, as a record of ANOTHER thread placed inside a thread's open call and between
    the two records of its new-thread pair: whatever that record is (decoded, known but undecoded, a kernel marker such
    as 'events were lost'), the thread's own traces and the name learned from its own pair stay what they are without
    it."""
    table = ev.bundled_codes()
    decodable = set(H.inventory()['decodable'])
    a_prog = H.path_syscall(rng, 'BSC_open', 1, error=0, interleave_unrelated=False) + H.newthread_pair(0x111999, 77, b'child')
    base, base_names, exc = run_stream(H.on_thread(0x111, a_prog))
    if exc is not None or not base.get(0x111) or base_names.get(77) != 'child':
        res.inconclusive.append(f'census baseline unusable: {exc!r} {base_names}')
        return
    for i, cid in enumerate(sorted(table)):
        if not ctx.mine(i):
            continue
        name = table[cid]
        if name in domain.TEXT_PAYLOAD:
            payload = domain.text32(rng)
        elif name in decodable:
            payload = domain.gen_single(rng, name)
        else:
            payload = [domain.rng_word(rng) for _ in range(4)]
        q = (H.NONE, H.NONE, H.ALL, H.START, H.END)[i % 5]
        for pos, where in ((1, 'inside its open call'), (len(a_prog) - 1, 'between the two records of its new-thread pair')):
            items = H.on_thread(0x111, a_prog[:pos]) + [(0x222, H.A(cid, q, payload))] + H.on_thread(0x111, a_prog[pos:])
            per, names, exc = run_stream(items)
            res.count('census_schedules')
            case = {'programs': programs_case([a_prog, [H.A(cid, q, payload)]], [0x111, 0x222]), 'position': pos}
            if exc is not None:
                res.violation(f'c05-raises-{core.exc_name(exc)}', f'a {name} record ({hex(cid)}) of another thread {where}: '
                              f'{exc!r}', case)
                return
            if per.get(0x111, []) != base[0x111] or names.get(77) != 'child':
                res.violation('c05-per-thread-traces' if per.get(0x111, []) != base[0x111] else 'c05-learned-names',
                              f'a {name} record ({hex(cid)}) of another thread {where} changes the thread\'s results: '
                              f'{len(per.get(0x111, []))} traces (alone: {len(base[0x111])}), name learned for its child\'s '
                              f'process {names.get(77)!r} (alone: \'child\')', case)
                return
        res.case(('census', cid))
    res.count('census_codes_done')


NAMING = H.NAMING


def naming_pairs(res, ctx, rng):
    """Records of ANOTHER thread that name this thread or its process in their argument words (scheduler records, the
    kernel's new-thread / terminate / exec announcements, sampler thread data): every ordered pair of them, placed inside
    the thread's open call.  They may re-map which process the thread belongs to (by design); the thread's own calls
    still pair and read the same."""
    tid, pid = 0x111, 77
    a_prog = H.path_syscall(rng, 'BSC_open', 1, error=0, interleave_unrelated=False) + \
        H.syscall('BSC_read', (3, 0x1000, 64, 0), (0, 64, 0, 0))
    base, _, exc = run_stream(H.on_thread(tid, a_prog))
    if exc is not None or not base.get(tid):
        res.inconclusive.append(f'naming-pairs baseline unusable: {exc!r}')
        return

    def words(name, k):
        return H.naming_words(rng, name, tid, pid, k)
    n = 0
    for x in NAMING:
        for y in NAMING:
            for k in (0, 1):
                n += 1
                if not ctx.mine(n):
                    continue
                foreign = [(0x222, H.A(x, H.NONE, words(x, k))), (0x222, H.A(y, H.NONE, words(y, k)))]
                items = H.on_thread(tid, a_prog[:1]) + foreign + H.on_thread(tid, a_prog[1:])
                per, _, exc = run_stream(items)
                res.count('naming_pair_schedules')
                res.case(('naming-pair', x, y, k))
                case = {'programs': programs_case([a_prog, [a for _, a in foreign]], [tid, 0x222]), 'position': 1}
                if exc is not None:
                    res.violation(f'c05-raises-{core.exc_name(exc)}', f'{x} then {y} of another thread naming thread {hex(tid)} / '
                                  f'pid {pid} inside its open call: {exc!r}', case)
                    return
                if per.get(tid, []) != base[tid]:
                    res.violation('c05-per-thread-traces', f'{x} then {y} of another thread, naming thread {hex(tid)} / pid '
                                  f'{pid} in their argument words, inside its open call: the thread reports '
                                  f'{len(per.get(tid, []))} traces, alone {len(base[tid])}', case)
                    return


def announcer_inside_the_same_call(res, ctx, rng):
    """The thread that emits a naming record is itself INSIDE an open call - every decodable call in turn - and the thread
    it names makes the same call (its own START before or after the record, or no START at all: its END is then an orphan).
    A record that says "that thread is my child / my exec copy / now runs for that process" is a statement about tables;
    each thread's calls still pair with that thread's own records."""
    inv = H.inventory()
    calls = sorted(inv['bsd'])
    tid_b, tid_a, pid = 0x222, 0x5151, 77
    n = 0
    for d in calls:
        for x, k in [(x, k) for x in NAMING for k in (0, 1)]:
            n += 1
            if not ctx.mine(n):
                continue
            sa, sb = domain.gen_words(rng, d, 'S'), domain.gen_words(rng, d, 'S')
            ea, eb = domain.gen_words(rng, d, 'E'), domain.gen_words(rng, d, 'E')
            ea[0], eb[0] = 0, rng.choice((0, 2))
            naming = H.A(x, H.NONE, H.naming_words(rng, x, tid_a, pid, k))
            b_prog = [H.A(d, H.START, sb), naming, H.A(d, H.END, eb)]
            for a_prog, orders in (([H.A(d, H.START, sa), H.A(d, H.END, ea)],
                                    ('BBAAB', 'ABBAB', 'BABBA', 'BABAB', 'BBABA')),
                                   ([H.A(d, H.END, ea)], ('BBAB', 'BBBA', 'ABBB'))):
                bases = {}
                ok = True
                for t_, p_ in ((tid_a, a_prog), (tid_b, b_prog)):
                    per, _, exc = run_stream(H.on_thread(t_, p_))
                    if exc is not None:
                        ok = False      # (a decoder that raises on these words alone: C07 / C09 territory, not a merge effect)
                    bases[t_] = per.get(t_, [])
                if not ok:
                    res.count('announcer_sets_skipped_baseline_raises')
                    continue
                for order in orders:
                    ia, ib, items = 0, 0, []
                    for c in order:
                        if c == 'A':
                            items.append((tid_a, a_prog[ia]))
                            ia += 1
                        else:
                            items.append((tid_b, b_prog[ib]))
                            ib += 1
                    per, _, exc = run_stream(items)
                    res.count('announcer_inside_the_same_call_schedules')
                    res.case(('announcer', d, x, k, order, len(a_prog)))
                    case = {'programs': programs_case([a_prog, b_prog], [tid_a, tid_b]), 'order': order}
                    if exc is not None:
                        res.violation(f'c05-raises-{core.exc_name(exc)}', f'{x} naming thread {hex(tid_a)} emitted inside an open {d}, '
                                      f'the named thread makes the same call (order {order}): {exc!r}', case)
                        return
                    for t_ in (tid_a, tid_b):
                        if per.get(t_, []) != bases[t_]:
                            res.violation('c05-per-thread-traces', f'{x} naming thread {hex(tid_a)} / pid {pid} emitted by thread '
                                          f'{hex(tid_b)} inside its open {d} while the named thread makes the same call '
                                          f'({"with" if len(a_prog) == 2 else "END without"} START of its own, order {order}): thread '
                                          f'{hex(t_)} reports {[(a, b) for a, b, _ in per.get(t_, [])]}, alone '
                                          f'{[(a, b) for a, b, _ in bases[t_]]}', case)
                            return


class BindingLog(dict):
    """A process-name table (the caller's dict) that remembers which thread's record was being fed when a name was bound."""

    def __init__(self):
        super().__init__()
        self.feeding = None
        self.log = {}

    def __setitem__(self, pid, name):
        self.log.setdefault(self.feeding, []).append((pid, name))
        super().__setitem__(pid, name)


def same_pid_pairs(res, ctx, rng):
    """Several threads announce THE SAME process: new-thread and exec record pairs of two or three threads all naming one
    pid, under different names (threads of one process start threads and exec while the buffers are merged).  The final
    table is then last-writer-wins by design; what each thread's OWN pair binds - (pid, name), in that thread's order - is
    a function of that thread's records alone, under every interleaving."""
    for it in range(ctx.pick(30, 600)):
        pid = rng.choice((77, 0, 4242))
        n = rng.choice((2, 2, 3))
        tids = [0x1001 + k for k in range(n)]
        programs = []
        for k in range(n):
            prog = []
            for j in range(rng.choice((1, 1, 2))):
                name = b'n%d-%d-%d' % (k, j, it)
                prog += H.newthread_pair(0x9000 + 16 * k + j, pid, name, rng.choice((H.NONE, H.ALL))) if rng.random() < 0.5 \
                    else H.exec_pair(pid, name, rng.choice((H.NONE, H.ALL)))
            programs.append(prog)

        def bindings(items):
            table = BindingLog()
            parser = ev.new_parser(pids_names=table)
            for e in H.materialize(items):
                table.feeding = e.tid
                parser.feed(e)
            return table.log
        try:
            base = {}
            for tid, p in zip(tids, programs):
                base[tid] = bindings(H.on_thread(tid, p)).get(tid, [])
            orders = H.all_interleavings(programs) if H.count_interleavings([len(p) for p in programs]) <= 300 else \
                [H.random_interleaving(rng, programs) for _ in range(120)]
            for order in orders:
                items = [(tids[t], programs[t][i]) for t, i in order]
                got = bindings(items)
                res.count('same_pid_pair_schedules')
                res.case(('same-pid', it, tuple(order)))
                for tid in tids:
                    if got.get(tid, []) != base[tid]:
                        res.violation('c05-learned-names', f'threads {[hex(t) for t in tids]} all announce pid {pid}: under the '
                                      f'order {[t for t, _ in order]} the pairs of thread {hex(tid)} bound {got.get(tid, [])}, '
                                      f'alone they bind {base[tid]}', {'programs': programs_case(programs, tids),
                                                                        'order': [list(o) for o in order]})
                        return
        except Exception as x:
            res.violation(f'c05-raises-{core.exc_name(x)}', f'threads announcing one pid: {x!r} at {core.short_tb(x)}',
                          {'programs': programs_case(programs, tids)})
            return


def two_feeders(res, ctx, rng):
    """The merged capture as it really arrives: one buffer per CPU.  ONE parser is fed by one live feed_generator() per
    buffer and the results are taken in turns; threads migrate between the buffers.  Whatever order of consumption that
    produces, every thread reports what a single feeder reports for that same order (and the order is a legal merge, so
    the per-thread results are those of the thread alone)."""
    for _ in range(ctx.pick(40, 1500)):
        programs, tids = gen_programs(rng, pairs_everywhere=True)
        order = H.random_interleaving(rng, programs)
        items = [(tids[t], programs[t][i]) for t, i in order]
        events = H.materialize(items, step=7)
        n_cpus = rng.choice((2, 2, 3))
        runs, cpu = [[] for _ in range(n_cpus)], 0
        for e in events:
            if rng.random() < 0.4:
                cpu = rng.randrange(n_cpus)         # (records come in runs per CPU; a thread migrates)
            runs[cpu].append(e)
        parser = ev.new_parser()
        consumed = []
        feeders = [parser.feed_generator((consumed.append(e) or e) for e in buf) for buf in runs]
        got, live = {}, [True] * n_cpus
        case = {'programs': programs_case(programs, tids), 'order': [list(o) for o in order], 'via': f'{n_cpus} feeders'}
        try:
            while any(live):
                for k in range(n_cpus):
                    if live[k]:
                        try:
                            t = next(feeders[k])
                            got.setdefault(t.ktraces[0].tid, []).append(trace_key(t))
                        except StopIteration:
                            live[k] = False
            ref = ev.new_parser()
            want = {}
            for e in consumed:
                t = ref.feed(e)
                if t is not None:
                    want.setdefault(t.ktraces[0].tid, []).append(trace_key(t))
        except Exception as x:
            res.violation(f'c05-raises-{core.exc_name(x)}', f'{n_cpus} live feeders on one parser: {x!r}', case)
            return
        res.count('captures_fed_by_several_live_feeders')
        res.case(('feeders', tuple(order), n_cpus))
        for tid in tids:
            if sorted(map(repr, got.get(tid, []))) != sorted(map(repr, want.get(tid, []))):
                res.violation('c05-per-thread-traces', f'thread {tid}: one parser fed by {n_cpus} live feed_generator()s (one per '
                              f'CPU buffer, results taken in turns) reports {len(got.get(tid, []))} traces, a single feeder given '
                              f'the records in the order they were consumed {len(want.get(tid, []))}', case)
                return


def programs_case(programs, tids):
    return [{'tid': tid, 'events': [[c, q, (p if isinstance(p, bytes) else list(p))] for c, q, p in prog]}
            for prog, tid in zip(programs, tids)]


def run(ctx):
    res = core.Result()
    rng = ctx.rng
    n2i = ev.name2ids()
    for i in range(ctx.pick(24, 2000)):
        programs, tids = gen_programs(rng, pairs_everywhere=(i % 2 == 0))
        check_set(res, ctx, rng, programs, tids)
        if i % 3 == 0:
            # thread ids are plain integers and so are the keys of every other table the pipeline keeps: the same
            # programs run by threads whose ids COINCIDE with keys of another key space that is live in the stream -
            # the event id (or full debug id) of a call another thread makes, a pid, a string id
            pools = []
            for t, p in enumerate(programs):
                others = [a for u, q in enumerate(programs) if u != t for a in q]
                ids = [n2i[a[0]][0] | rng.choice((0, 0, 0, 1, 2)) for a in others if a[0] in n2i]
                pools.append(ids + [100 * (u + 1) for u in range(len(programs)) if u != t] + [1000 * (u + 1) for u in range(len(programs)) if u != t])
            new_tids = []
            for t in range(len(programs)):
                cand = [x for x in pools[t] if x not in new_tids and x not in tids]
                new_tids.append(rng.choice(cand) if cand else tids[t])
            check_set(res, ctx, rng, programs, new_tids)
            res.count('program_sets_with_thread_ids_equal_to_other_live_keys')
    census(res, ctx, rng)
    naming_pairs(res, ctx, rng)
    announcer_inside_the_same_call(res, ctx, rng)
    same_pid_pairs(res, ctx, rng)
    two_feeders(res, ctx, rng)
    # many threads at once (tables that are capped, flushed in batches or keyed by a hash show only then)
    for _ in range(ctx.pick(3, 40)):
        n = rng.choice((17, 18, 33, 40, 70))
        programs, tids = [], []
        for t in range(n):
            tid = 100 + t
            keyspace = {'tid': tid, 'pid': 1000 + 10 * t, 'sid': 100000 + 100 * t}
            prog = H.scenario(rng, keyspace, kinds=('newthread', 'exec'))
            if rng.random() < 0.3:
                prog = prog + H.scenario(rng, keyspace, kinds=('syscall', 'threadname'), private_keys=True)
            programs.append(prog[:8])
            tids.append(tid)
        check_set(res, ctx, rng, programs, tids)
        res.count('many_thread_sets')
    # scale ladder: more threads inside a START..END window at the same moment than any table cap a developer would pick
    # for "threads that are busy right now" (merged per-CPU buffers of a busy machine hold thousands of blocked threads)
    # (rungs step over 2^16 in the quick tier as well, see vlib/histories.py SCALE_RUNGS)
    for n in [n for i, n in enumerate(ctx.pick((1100, 2100, 66000), (1100, 4200, 9000, 20000, 65535, 65536, 65537,
                                                                        70000, 131073))) if ctx.mine(i)]:
        programs, tids = [], []
        for t in range(n):
            tid = 0x10000 + t
            keyspace = {'tid': tid, 'pid': 1000 + 10 * t, 'sid': 100000 + 100 * t}
            call = H.syscall(rng.choice(('BSC_read', 'BSC_write', 'BSC_getpid', 'BSC_sys_close')), (3, 0x7000, 64, 0),
                             (rng.choice((0, 0, 9)), 32, 0, 0),
                             H.newthread_pair(0x900000 + t, keyspace['pid'], b'child%d' % t) if t % 7 == 0 else [])
            programs.append(call + (H.exec_pair(keyspace['pid'], b'image%d' % t) if t % 11 == 0 else []))
            tids.append(tid)
        check_set(res, ctx, rng, programs, tids, n_random=2 if n < 10000 else 0)
        res.count('wide_thread_sets')
        res.counters['widest_thread_set'] = max(res.counters.get('widest_thread_set', 0), n)
    # the canonical adversarial case, by construction: DATA(A) DATA(B) STRING(A) STRING(B) for both pair kinds
    for maker in (lambda t, pid, n: H.newthread_pair(t * 1000 + 1, pid, n), lambda t, pid, n: H.exec_pair(pid, n)):
        for q in (H.NONE, H.ALL):
            programs = [maker(10, 100, b'procA'), maker(11, 200, b'procB'), maker(12, 300, b'procC')]
            programs = [[p[0], (p[1][0], q, p[1][2])] for p in programs]
            check_set(res, ctx, rng, programs, [10, 11, 12])
            res.count('canonical_pair_sets')
    if ctx.shard == 0:
        r = core.Ctx('C05', ctx.tier, ctx.seed).rng
        programs, tids = gen_programs(r, True)
        res.sample({'programs': {tid: [f'{c}:{q}' for c, q, _ in p] for p, tid in zip(programs, tids)},
                    'interleavings': H.count_interleavings([len(p) for p in programs])})
    res.assumptions += ['keys of tables shared by design (string ids, pids, thread ids passed as arguments) are disjoint '
                        'across threads; decoders keyed by arbitrary argument values are not used as stand-alone records']
    res.require('schedules_executed', 100)
    res.require('schedules_splitting_a_pair', 10)
    res.require('program_sets_exhaustively_scheduled', 1)
    res.require('many_thread_sets', 1)
    res.require('program_sets_with_thread_ids_equal_to_other_live_keys', 4)
    res.require('schedules_through_a_dump', 20)
    res.require('census_schedules', 6000)
    res.require('naming_pair_schedules', 200)
    res.require('same_pid_pair_schedules', 300)
    res.require('announcer_inside_the_same_call_schedules', 2000)
    res.require('captures_fed_by_several_live_feeders', 100)
    return res


def replay(case, ctx):
    res = core.Result()
    programs = [[(c, q, (p if isinstance(p, bytes) else tuple(p))) for c, q, p in pr['events']] for pr in case['programs']]
    tids = [pr['tid'] for pr in case['programs']]
    check_set(res, ctx, ctx.rng, programs, tids)
    return res
