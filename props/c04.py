"""C04 - START/END pairing delivers exactly each operation's per-thread event window.

Monitors: (1) FeedRecorder - every call of the real TracesParser.feed is logged at the client boundary
(index, event, returned trace / None) together with state snapshots around END events; (2) an offline checker
derives, from the *history alone*, the window each END must deliver and what every other event may produce;
(3) an icontract class invariant on TracesParser (evaluated after every public call) asserts the structural
window invariant on the live tables.  Workload: exhaustive small scope + stratified random histories.
"""
import itertools

from vlib import gen, wire, core, ev, domain, histories as H, monitors

LEVEL = 'exploration'
RULE = ('histories = (a) exhaustive small scope: all sequences up to length 4 (quick) / 5 (thorough) over 2 threads x 2 '
        'codes x 4 qualifiers for several code pairs (decodable/trace-domain/undecoded/unknown); (b) random histories of '
        '<= 60 events over <= 3 threads and <= 6 codes of the four kinds with in-domain words, stratified so that '
        'unmatched END, re-opened START, nesting, crossing pairs, same code on two threads, both domains open at '
        'once and qualifier 3 occur; non-trivial = history containing at least one START or END; distinct = distinct '
        '(tid, debugid) sequences')
QUICK_SHARDS = 8
THOROUGH_SHARDS = 16

TRACE_DOMAIN = {'TRACE_DATA_NEWTHREAD', 'TRACE_DATA_EXEC', 'TRACE_DATA_THREAD_TERMINATE',
                'TRACE_DATA_THREAD_TERMINATE_PID', 'TRACE_STRING_GLOBAL', 'TRACE_STRING_NEWTHREAD', 'TRACE_STRING_EXEC',
                'TRACE_STRING_PROC_EXIT', 'TRACE_STRING_THREADNAME', 'TRACE_STRING_THREADNAME_PREV'}
# NONE-qualified records of these codes are continuation fragments of multi-record items: one trace or none (C08)
FRAGMENT_CODES = {'VFS_LOOKUP', 'TRACE_STRING_GLOBAL', 'TRACE_STRING_THREADNAME', 'TRACE_STRING_THREADNAME_PREV'}


class InvariantLog:
    evaluations = 0
    paused = False
    not_applicable = 0
    failures = []


def windows_well_formed(self):
    """Class invariant: every open window is non-empty, starts with a START of the key's code on the key's thread,
    holds only that thread's events and no END of its own code.  Records and returns True."""
    if InvariantLog.paused:          # the 2^20 rungs have their own linear oracle (huge_windows)
        return True
    InvariantLog.evaluations += 1
    for table_name in ('on_going_events', 'on_going_traces'):
        table = getattr(self, table_name, None)
        if not isinstance(table, dict):
            continue
        for tid, per in table.items():
            if not isinstance(per, dict) or not all(isinstance(w, list) for w in per.values()):
                InvariantLog.not_applicable += 1     # another representation of the windows: nothing to assert here
                continue
            for code, window in per.items():
                bad = None
                if not window:
                    bad = 'empty window'
                elif window[0].func_qualifier != 1 or window[0].eventid != code or window[0].tid != tid:
                    bad = 'window does not start with a START of its code on its thread'
                else:
                    # the invariant runs after every feed and a feed appends at most one event per window: beyond 256
                    # events only the tail is walked (every appended event is still seen once), otherwise the monitor
                    # is quadratic in the window length and the 2^16 rungs become unaffordable
                    part = window if len(window) <= 256 else window[-32:]
                    if any(e.tid != tid for e in part):
                        bad = 'window holds an event of another thread'
                    elif any(e.eventid == code and e.func_qualifier == 2 for e in part):
                        bad = 'window holds an END of its own code'
                if bad and len(InvariantLog.failures) < 10:
                    InvariantLog.failures.append(f'{table_name}[{tid}][{hex(code)}]: {bad}')
    return True


_installed = False


def install_invariant():
    global _installed
    if _installed or not monitors.HAVE_ICONTRACT:
        return
    import icontract
    from pykdebugparser.traces_parser import TracesParser
    icontract.invariant(windows_well_formed, error=AssertionError)(TracesParser)
    _installed = True


def snapshot(parser):
    def tab(t):
        return {tid: {c: tuple(id(e) for e in w) for c, w in per.items()} for tid, per in t.items()}

    def val(x):
        return dict(x) if isinstance(x, dict) else x
    # every mutable attribute of the parser object is part of the state (robust to renamed / added attributes)
    out = []
    for name, value in sorted(vars(parser).items()):
        if name in ('handlers', 'qualifiers_actions', 'trace_codes'):
            continue
        if isinstance(value, dict) and value and all(isinstance(v, dict) for v in value.values()):
            try:
                out.append((name, tab(value)))
                continue
            except Exception:
                pass
        out.append((name, repr(val(value)) if not isinstance(value, dict) else repr(sorted(value.items(), key=repr))))
    return out


def feed_recorded(history, transfer=None):
    """FeedRecorder: drives the real parser, returns the log [(k, event, trace|None)], stray-END state diffs and a
    possible exception.  transfer = (index, how): before that record the parser is replaced by a checkpoint of itself
    (copy.deepcopy, or a pickle round trip - a checkpoint file, a hand-over to a worker process), windows open."""
    parser = ev.new_parser()
    log = []
    state_changes = []
    for k, e in enumerate(history):
        if transfer is not None and k == transfer[0]:
            import copy
            import pickle
            try:
                parser = copy.deepcopy(parser) if transfer[1] == 'deepcopy' else pickle.loads(pickle.dumps(parser))
            except Exception as x:
                return log, state_changes, (k, x), parser
        before = snapshot(parser) if e.func_qualifier == 2 else None
        try:
            t = parser.feed(e)
        except Exception as x:
            return log, state_changes, (k, x), parser
        log.append((k, e, t))
        if before is not None and t is None:
            after = snapshot(parser)
            if after != before:
                state_changes.append(k)
    return log, state_changes, None, parser


def check_history(res, history, label='', transfer=None):
    """The offline checker: everything below is derived from `history` and the recorded log only."""
    codes = ev.bundled_codes()
    handlers = H.inventory()['handlers']
    log, state_changes, exc, parser = feed_recorded(history, transfer)
    if transfer is not None:
        label = f'{label} [parser replaced by a {transfer[1]} checkpoint of itself before record {transfer[0]}]'
        res.count('histories_with_a_checkpoint_transfer_by_' + transfer[1])
    sig = tuple((e.tid, e.debugid) for e in history)
    res.case(sig, nontrivial=any(e.func_qualifier in (1, 2) for e in history))
    res.count('events_fed', len(history))
    case = {'events': [ev.ev_to_case(e) for e in history]}
    if exc is not None:
        res.violation(f'c04-raises-{core.exc_name(exc[1])}', f'{label} feed raised {exc[1]!r} at event {exc[0]}', case)
        return False

    def name(e):
        return codes.get(e.eventid)

    def dom(e):
        return 'trace' if name(e) in TRACE_DOMAIN else 'ordinary'

    def ambiguous(e):
        # The quantifier distinguishes four kinds of codes: decodable, trace-domain, known-but-undecoded and unknown.  An
        # id that the table does not name is 'unknown' even when it lies numerically inside the kernel's trace-data /
        # trace-string subclasses, so it pairs in the ordinary domain; nothing is treated as ambiguous.
        return False

    def decodable(e):
        return name(e) in handlers and name(e) is not None

    open_start = {}            # (tid, code) -> index of the open START
    stray = [False] * len(history)
    seen_threads_per_code = {}
    for k, e, t in log:
        key = (e.tid, e.eventid)
        q = e.func_qualifier
        where = f'{label} event {k} ({ev.ev_brief(e)})'
        if q == 1:
            if key in open_start:
                res.count('class_reopened_start')
            open_start[key] = k
            seen_threads_per_code.setdefault(e.eventid, set()).add(e.tid)
            if len(seen_threads_per_code[e.eventid]) > 1:
                res.count('class_same_code_two_threads')
            if len({dom(history[i]) for (tid, _), i in open_start.items() if tid == e.tid}) > 1:
                res.count('class_both_domains_open')
            if sum(1 for (tid, _) in open_start if tid == e.tid) > 1:
                res.count('class_nested')
            if t is not None:
                res.violation('c04-trace-on-start', f'{where}: a START produced a trace {str(t)!r}', case)
                return False
            continue
        if q == 2:
            if key not in open_start:
                stray[k] = True
                res.count('class_unmatched_end')
                if t is not None:
                    res.violation('c04-trace-on-stray-end', f'{where}: END without open START produced {str(t)!r}', case)
                    return False
                if k in state_changes:
                    res.violation('c04-stray-end-changes-state', f'{where}: END without open START changed the parser '
                                  f'state', case)
                    return False
                continue
            s = open_start.pop(key)
            # crossing pair: another window of this thread opened after s and is still open
            if any(tid == e.tid and i > s for (tid, _), i in open_start.items()):
                res.count('class_crossing')
            if not decodable(e):
                if t is not None:
                    res.violation('c04-trace-without-decoder', f'{where}: trace for a code without decoder', case)
                    return False
                res.count('ends_of_undecodable_codes')
                continue
            if t is None:
                res.violation('c04-no-trace-on-end', f'{where}: END with an open START (index {s}) produced no trace', case)
                return False
            mandatory = [i for i in range(s, k + 1) if history[i].tid == e.tid and dom(history[i]) == dom(e)
                         and not stray[i] and not (ambiguous(history[i]) and i not in (s, k))]
            optional = {i for i in range(s, k + 1) if history[i].tid == e.tid and
                        ((dom(history[i]) == dom(e) and stray[i]) or ambiguous(history[i]))}
            index_of = {id(x): i for i, x in enumerate(history)}
            try:
                got = [index_of.get(id(x), -1) for x in t.ktraces]
            except Exception as x:
                res.violation('c04-shape', f'{where}: trace has no event list: {x!r}', case)
                return False
            if -1 in got:   # not the identical objects: fall back to equality on unique timestamps
                by_ts = {x.timestamp: i for i, x in enumerate(history)}
                got = [by_ts.get(x.timestamp, -1) if history[by_ts.get(x.timestamp, 0)] == x else -1 for x in t.ktraces]
            ok = (got and got[0] == s and got[-1] == k and got == sorted(set(got))
                  and set(mandatory) <= set(got) <= set(mandatory) | optional)
            if not ok:
                res.violation('c04-window', f'{where}: delivered window {got} but the history defines {mandatory} '
                              f'(optional stray ENDs {sorted(optional)}); open START at {s}', case)
                return False
            res.count('windows_checked')
            res.count(f'window_len_{min(len(got), 6)}')
            continue
        # NONE / ALL
        if q == 3:
            res.count('class_qualifier_all')
        if not decodable(e):
            if t is not None:
                res.violation('c04-trace-without-decoder', f'{where}: trace for a code without decoder', case)
                return False
            continue
        fragment = q == 0 and name(e) in FRAGMENT_CODES
        if t is None:
            if not fragment:
                res.violation('c04-no-trace-on-single', f'{where}: NONE/ALL event of a decodable code produced no trace',
                              case)
                return False
            res.count('fragments_swallowed')
            continue
        kt = list(getattr(t, 'ktraces', []))
        if len(kt) != 1 or kt[0] is not e and kt[0] != e:
            res.violation('c04-single-window', f'{where}: single event produced a trace with {len(kt)} events', case)
            return False
        res.count('singles_checked')
    res.count('histories')
    return True


# ---------------------------------------------------------------------------------------------
# workloads
# ---------------------------------------------------------------------------------------------

def mk_event(rng, ts, code, q, tid):
    nm = code if isinstance(code, str) else None
    if nm in domain.TEXT_PAYLOAD:
        payload = domain.text32(rng)
        if nm == 'VFS_LOOKUP':
            payload = b'\x11' * 8 + payload[:24]
        if nm == 'TRACE_STRING_GLOBAL':
            payload = b'\x07' + b'\x00' * 7 + b'\x09' + b'\x00' * 7 + payload[:16]
    elif nm is not None and nm in H.inventory()['decodable']:
        if q == 1:
            payload = domain.gen_words(rng, nm, 'S')
        elif q == 2:
            payload = domain.gen_words(rng, nm, 'E')
            if nm.startswith('BSC_'):
                payload[0] = rng.choice((0, 0, 2))
        else:
            payload = domain.gen_single(rng, nm)
    else:
        payload = [domain.rng_word(rng) for _ in range(4)]
    return ev.mk(ts, code, q, payload, tid)


SMALL_SCOPE_PAIRS = [('BSC_read', 'TRACE_DATA_EXEC'), ('BSC_getpid', 'MACH_vm_page_release'),
                     ('TRACE_STRING_PROC_EXIT', 'TRACE_DATA_THREAD_TERMINATE_PID'), ('MACH_vmfault', 0x2a040000),
                     ('VFS_LOOKUP', 'BSC_open'), ('TRACE_STRING_GLOBAL', 'PERF_Event')]


def small_scope(res, ctx, rng):
    alphabet_cache = {}
    n = 0
    for pi, pair in enumerate(SMALL_SCOPE_PAIRS):
        maxlen = ctx.pick(4 if pi == 0 else 3, 5 if pi < 2 else 4)
        symbols = [(tid, code, q) for tid in ((1, 2) if pi % 2 == 0 else (0, 2)) for code in pair for q in (0, 1, 2, 3)]
        for L in range(1, maxlen + 1):
            for combo in itertools.product(range(len(symbols)), repeat=L):
                n += 1
                if not ctx.mine(n):
                    continue
                history = []
                for i, si in enumerate(combo):
                    tid, code, q = symbols[si]
                    history.append(mk_event(rng, 1000 + 7 * i, code, q, tid))
                check_history(res, history, f'small scope {pair}')
                res.count('small_scope_histories')


def jitter(rng, history):
    """The same history with timestamps that run slightly backwards (neighbouring records swap their stamps): pairing
    follows the order of the stream, never the stamps.  Stamps stay unique."""
    stamps = [e.timestamp for e in history]
    for i in range(len(stamps) - 1):
        if rng.random() < 0.3:
            stamps[i], stamps[i + 1] = stamps[i + 1], stamps[i]
    return [ev.mk(ts, e.eventid, e.func_qualifier, e.data, e.tid) for ts, e in zip(stamps, history)]


def random_histories(res, ctx, rng):
    inv = H.inventory()
    for h in range(ctx.pick(400, 6000)):
        kinds = []
        kinds += rng.sample(inv['decodable'], rng.randrange(1, 4))
        kinds += rng.sample(inv['trace_domain'], rng.randrange(0, 3))
        kinds += rng.sample(inv['undecoded_sample'], rng.randrange(0, 2))
        kinds += rng.sample(inv['unknown_ids'], rng.randrange(0, 2))
        kinds = kinds[:6]
        # thread ids are arbitrary 64-bit words: 0 (a legal, falsy key) and the ends of the range included
        tids = [rng.choice((rng.randrange(1, 5), rng.randrange(1, 5), 0, (1 << 64) - 1, 1 << 32)) for _ in range(rng.randrange(1, 4))]
        if h % 4 == 3:
            # ... and coincide with keys of the OTHER key space of the pairing tables: the event id (or full debug id) of a
            # code used in this very history
            ids = [ev.eid(k_) if isinstance(k_, str) else k_ for k_ in kinds]
            tids = [rng.choice(ids) | rng.choice((0, 0, 1, 2)) for _ in tids] + tids[:1]
            res.count('random_histories_with_thread_ids_equal_to_event_ids')
        n = rng.randrange(2, 61)
        history = []
        opened = []
        for i in range(n):
            tid = rng.choice(tids)
            c = rng.random()
            if opened and c < 0.35:
                otid, ocode = rng.choice(opened)        # close something that is open (possibly crossing)
                history.append(mk_event(rng, 1000 + 7 * i, ocode, 2, otid))
                if rng.random() < 0.8:
                    opened.remove((otid, ocode))
                continue
            code = rng.choice(kinds)
            q = rng.choice((0, 1, 1, 2, 3))
            history.append(mk_event(rng, 1000 + 7 * i, code, q, tid))
            if q == 1:
                opened.append((tid, code))
        if h % 3 == 2:
            history = jitter(rng, history)
            res.count('random_histories_with_stamps_running_backwards')
        check_history(res, history, 'random')
        res.count('random_histories')
        if h % 3 != 2 and h % 2 == 0 and len(history) > 2:
            # (timestamps are unique here: the windows of a checkpoint hold copies of the records, matched by timestamp)
            check_history(res, history, 'random', transfer=(rng.randrange(1, len(history)), ('deepcopy', 'pickle')[(h // 2) % 2]))


def long_windows(res, ctx, rng):
    """Windows holding hundreds to thousands of same-thread events (a long-running call)."""
    inv = H.inventory()
    ladder = [n for i, n in enumerate(ctx.pick(H.SCALE_RUNGS_QUICK, H.SCALE_RUNGS_THOROUGH)) if ctx.mine(i) and n <= 200000]
    for it in range(ctx.pick(6, 60) + len(ladder)):
        outer = rng.choice(inv['bsd'])
        inner_codes = rng.sample(inv['decodable'], 3) + rng.sample(inv['undecoded_sample'], 1) + ['TRACE_DATA_EXEC']
        n = ladder[it] if it < len(ladder) else rng.choice((255, 256, 257, 300, 1000, 2500))
        history = [mk_event(rng, 1000, outer, 1, 5)]
        # beyond 10000 events the nested STARTs/ENDs are thinned out (each END costs the recorder a state snapshot)
        quals = (0, 0, 3, 1, 2) if n <= 10000 else (0, 0, 3) * 2000 + (1, 2)
        # n is the size of the delivered window, START and END included: records of the other thread and of the other
        # pairing domain come on top
        inside, i = 0, 0
        while inside < n - 2:
            code = rng.choice(inner_codes)
            tid = rng.choice((5, 5, 5, 6))
            history.append(mk_event(rng, 1007 + 7 * i, code, rng.choice(quals), tid))
            inside += tid == 5 and code not in TRACE_DOMAIN
            i += 1
        history.append(mk_event(rng, 1007 + 7 * i, outer, 2, 5))
        check_history(res, history, f'long window ({n} events)')
        res.count('long_window_histories')


def huge_windows(res, ctx, rng):
    """Windows of 2^20 records and more (the top of the scale rungs): a call A stays open while its thread produces the
    filler, then another call B starts and ends, then A ends.  Built from repeated record objects (H.stretched_events),
    so the general history checker (which identifies events by identity) is replaced by a linear walk: B's END delivers
    exactly [B.START, B.END], A's END delivers every record of the stream, in order, by identity."""
    rungs = [(n, False) for i, n in enumerate(ctx.pick(H.SCALE_RUNGS_QUICK, H.SCALE_RUNGS_THOROUGH)) if ctx.mine(i) and n > 200000]
    # ... and nesting width: n windows open at once on the thread (n STARTs of distinct ids that never end); quadratic,
    # so the width rungs end at 5000
    rungs += [(n, True) for i, n in enumerate(ctx.pick(H.SCALE_RUNGS_QUICK, H.SCALE_RUNGS_THOROUGH)) if ctx.mine(i + 3) and n <= 5000]
    for n, wide in rungs:
        a, b = rng.sample(('BSC_read', 'BSC_write', 'BSC_getpid', 'BSC_sys_close', 'BSC_fsync'), 2)
        seq = [H.A(a, H.START, (3, 0x1000, 64, 0)), H.A(b, H.START, (4, 0x2000, 32, 0)), H.A(b, H.END, (0, 32, 0, 0)),
               H.A(a, H.END, (0, 64, 0, 0))]
        events, _ = H.stretched_events(seq, 1, n, rng, tid=5, wide=wide)
        case = {'huge_window': n, 'outer': a, 'inner': b, 'wide': wide}
        parser = ev.new_parser()
        got = []
        InvariantLog.paused = True
        try:
            for k, e in enumerate(events):
                t = parser.feed(e)
                if t is not None and (e.func_qualifier == 2):
                    got.append((k, t))
        except Exception as x:
            InvariantLog.paused = False
            res.violation(f'c04-raises-{core.exc_name(x)}', f'window of {n} records: feed raised {x!r} at {core.short_tb(x)}', case)
            return
        InvariantLog.paused = False
        res.case(('huge-window', n, a, b))
        res.count('events_fed', len(events))
        res.count('huge_windows')
        ends = {k: t for k, t in got if k >= len(events) - 2}
        tb, ta = ends.get(len(events) - 2), ends.get(len(events) - 1)
        if tb is None or ta is None:
            res.violation('c04-no-trace-on-end', f'window of {n} records of one thread ({a} open, then {b} START..END, then '
                          f'the END of {a}): ' + ('the END of the inner call' if tb is None else 'the END of the outer call')
                          + ' has an open START but produced no trace', case)
            return
        kb, ka = list(tb.ktraces), list(ta.ktraces)
        if len(kb) != 2 or kb[0] is not events[-3] or kb[1] is not events[-2]:
            res.violation('c04-window', f'window of {n} records: the inner call delivered {len(kb)} events, expected its START '
                          f'and END', case)
            return
        if len(ka) != len(events) or any(x is not y for x, y in zip(ka, events)):
            j = next((i for i, (x, y) in enumerate(zip(ka, events)) if x is not y), min(len(ka), len(events)))
            res.violation('c04-window', f'window of {n} records: the outer call delivered {len(ka)} events, the stream holds '
                          f'{len(events)} of its thread between its START and END (first difference at position {j})', case)
            return
        res.count('windows_checked', 2)


def foreign_naming_pairs(res, ctx, rng):
    """Records of another thread whose argument words name the thread of an open window (or its process): every ordered
    pair of the kernel's announcements and scheduler records.  They are not in that thread's stream, so its window is
    delivered as if they were not there."""
    n = 0
    for x in H.NAMING:
        for y in H.NAMING:
            n += 1
            if not ctx.mine(n):
                continue
            k = n % 2
            outer = rng.choice(('BSC_read', 'BSC_write', 'BSC_open', 'BSC_sys_close'))
            items = [(5, H.A(outer, H.START, domain.gen_words(rng, outer, 'S'))),
                     (6, H.A(x, H.NONE, H.naming_words(rng, x, 5, 100, k))), (5, H.A('MACH_SCHED', H.NONE, H.naming_words(rng, 'MACH_SCHED', 9, 9))),
                     (6, H.A(y, H.NONE, H.naming_words(rng, y, 5, 100, k))),
                     (5, H.A(outer, H.END, [0] + domain.gen_words(rng, outer, 'E')[1:]))]
            check_history(res, H.materialize(items), f'{x} then {y} of another thread naming the window\'s thread')
            res.count('foreign_naming_pair_histories')


def named_while_open(res, ctx, rng):
    """The table (or the parser's public decoder table) is edited WHILE a window is open: an id the table did not name gets
    the name of a decodable call, a name gets its decoder registered, or the other way round.  Pairing never depends on
    whether a code is decodable (undecoded and unknown codes pair like any other), so the window is collected either
    way; whether its END yields a trace is what the tables say WHEN THE END ARRIVES - the one moment a decoder is looked
    up - and the trace then carries the whole window."""
    inv = H.inventory()
    bundled = ev.bundled_codes()
    free_ids = [0x2a040000, 0x99990004, 0xfe000000, 0x2b000010]
    for it in range(ctx.pick(60, 1200)):
        call = rng.choice(inv['bsd'])
        direction = ('named while open', 'decoder registered while open', 'name removed while open')[it % 3]
        table = dict(bundled)
        parser = ev.new_parser(codes=table)
        x = rng.choice(free_ids) if direction == 'named while open' else ev.eid(call)
        saved_handler = parser.handlers.get(call)
        if direction == 'decoder registered while open':
            parser.handlers = {k: v for k, v in parser.handlers.items() if k != call}
        tid = rng.choice((7, 0, 1 << 40))
        words = domain.gen_words(rng, call, 'S')
        end = domain.gen_words(rng, call, 'E')
        end[0] = 0
        inner = [ev.mk(1007 + 7 * i, rng.choice(free_ids[1:] if x == free_ids[0] else free_ids[:1]), 0, [i, 0, 0, 0], tid)
                 for i in range(rng.randrange(0, 4))]
        other = [ev.mk(1100 + i, 0x2b000020, rng.choice((0, 1, 2)), [0, 0, 0, 0], tid + 1) for i in range(rng.randrange(0, 3))]
        history = [ev.mk(1000, x, 1, words, tid)] + inner + other
        try:
            early = [parser.feed(e) for e in history]
            if direction == 'named while open':
                table[x] = call
            elif direction == 'decoder registered while open':
                parser.handlers[call] = saved_handler
            else:
                del table[x]
            last = ev.mk(2000, x, 2, end, tid)
            t = parser.feed(last)
        except Exception as exc:
            res.violation(f'c04-raises-{core.exc_name(exc)}', f'{call} ({direction}): {exc!r} at {core.short_tb(exc)}', {'call': call})
            return
        res.count('windows_with_a_table_edit_inside')
        res.case(('named-while-open', call, direction, it))
        if any(e_ is not None for e_ in early):
            res.violation('c04-trace-on-start', f'{call} ({direction}): a record before the END produced a trace', {'call': call})
            return
        if direction == 'name removed while open':
            if t is not None:
                res.violation('c04-window', f'{call}: its name was removed from the table while its window was open, the END still '
                              f'produced {str(t)!r}', {'call': call, 'direction': direction})
                return
            continue
        want = [history[0]] + inner + [last]
        if t is None or [id(e_) for e_ in t.ktraces] != [id(e_) for e_ in want]:
            res.violation('c04-no-trace-on-end' if t is None else 'c04-window',
                          f'{call} ({direction}): the END of the window produced {"no trace" if t is None else "a window of %d records" % len(t.ktraces)}, '
                          f'the window holds {len(want)} records of its thread and the tables name and decode the call when the END arrives',
                          {'call': call, 'direction': direction})
            return


def reassigned_tables(res, ctx, rng):
    """A long-lived parser whose code table is RE-ASSIGNED (parser.trace_codes = another mapping) or edited in place while it
    lives: a kernel trace-string / data name and an ordinary call trade ids, and the following records use the new
    numbering.  From then on the parser pairs and decodes exactly like a parser built with that table from the start -
    both the pairing domain of a record and its decoder follow the table as it is."""
    inv = H.inventory()
    bundled = ev.bundled_codes()
    for it in range(ctx.pick(60, 1500)):
        t_name = rng.choice(sorted(inv['trace_domain']))
        o_name = rng.choice(inv['bsd'])
        it_, io_ = ev.eid(t_name), ev.eid(o_name)
        swapped = dict(bundled)
        swapped[it_], swapped[io_] = bundled[io_], bundled[it_]
        pi = {it_: io_, io_: it_}
        parser = ev.new_parser(codes=dict(bundled))
        # some history under the bundled numbering first (windows left open in both domains)
        warm = [mk_event(rng, 900 + 7 * i, c, q, 5) for i, (c, q) in enumerate(((o_name, 1), (t_name, 0), ('BSC_getpid', 1)))]
        how = rng.choice(('reassign', 'in place'))
        try:
            for e in warm:
                parser.feed(e)
            if how == 'reassign':
                parser.trace_codes = swapped
            else:
                parser.trace_codes[it_], parser.trace_codes[io_] = bundled[io_], bundled[it_]
            fresh = ev.new_parser(codes=dict(swapped))
            # (the windows the warm-up left open were opened under the old numbering: both parsers start the history
            # with none open)
            parser.on_going_events.clear()
            parser.on_going_traces.clear()
            history = []
            for i in range(rng.randrange(4, 14)):
                code = rng.choice((o_name, o_name, t_name, t_name, 'BSC_getpid', 'MACH_SCHED'))
                e = mk_event(rng, 2000 + 7 * i, code, rng.choice((0, 1, 1, 2, 2, 3)), rng.choice((5, 5, 6)))
                history.append(ev.mk(e.timestamp, pi.get(e.eventid, e.eventid), e.func_qualifier, e.data, e.tid))
            got = [(k, None if t is None else (str(t), len(t.ktraces))) for k, t in enumerate(parser.feed(e) for e in history)]
            want = [(k, None if t is None else (str(t), len(t.ktraces))) for k, t in enumerate(fresh.feed(e) for e in history)]
        except Exception as x:
            res.violation(f'c04-raises-{core.exc_name(x)}', f'table {how} on a live parser ({t_name} <-> {o_name}): {x!r} at '
                          f'{core.short_tb(x)}', {'trace_name': t_name, 'call': o_name})
            return
        res.count('histories_after_a_table_change')
        res.case(('table-change', t_name, o_name, how, it))
        if got != want:
            k = next(i for i, (a, b) in enumerate(zip(got, want)) if a != b)
            res.violation('c04-pairing-follows-an-earlier-table', f'{t_name} and {o_name} trade ids, table changed by {how} on a '
                          f'live parser: at record {k} it delivers {got[k][1]}, a parser built with that table delivers '
                          f'{want[k][1]}', {'trace_name': t_name, 'call': o_name, 'how': how})
            return


def front_end_sequences(res, ctx, rng):
    """One front-end object asked for the traces of several dumps in turn: every dump is paired on its own.  The earlier
    dump ends with operations still open (both pairing domains), the later one begins with the matching ENDs."""
    import io
    from pykdebugparser.pykdebugparser import PyKdebugParser
    inv = H.inventory()
    for _ in range(ctx.pick(12, 300)):
        tid = rng.choice((5, 0, 1 << 40))
        a_code = rng.choice(inv['bsd'])
        t_code = rng.choice(('TRACE_STRING_GLOBAL', 'TRACE_STRING_THREADNAME', 'TRACE_STRING_THREADNAME_PREV'))
        dump_a = [mk_event(rng, 1000, 'BSC_getpid', 1, tid), mk_event(rng, 1007, 'BSC_getpid', 2, tid),
                  mk_event(rng, 1014, a_code, 1, tid), mk_event(rng, 1021, t_code, 1, tid), mk_event(rng, 1028, t_code, 0, tid)]
        dump_b = [mk_event(rng, 2000, t_code, 2, tid), mk_event(rng, 2007, a_code, 2, tid),
                  mk_event(rng, 2014, 'BSC_getppid', 1, tid), mk_event(rng, 2021, 'BSC_getppid', 2, tid)]
        files = [wire.v2_file([(tid, 100, b'proc', b'')], 8, gen.events_to_records(d)) for d in (dump_a, dump_b)]
        one = PyKdebugParser()
        case = {'files': files}
        try:
            for data in files:
                got = [[(e.timestamp, e.debugid) for e in t.ktraces] for t in one.traces(io.BytesIO(data))]
                fresh = [[(e.timestamp, e.debugid) for e in t.ktraces] for t in PyKdebugParser().traces(io.BytesIO(data))]
                res.count('front_end_sequence_requests')
                if got != fresh:
                    res.violation('c04-window-carried-over-from-an-earlier-dump', f'one front-end object, second dump: traces '
                                  f'{got[:3]} differ from those of a fresh object {fresh[:3]} (operations left open by the '
                                  f'earlier dump: {a_code}, {t_code} on thread {tid})', case)
                    return
        except Exception as x:
            res.violation(f'c04-raises-{core.exc_name(x)}', f'sequence of dumps on one front-end object: {x!r}', case)
            return


def repo_tests_under_contracts(res):
    """The repository's own tests, run in a subprocess with the contracts attached."""
    import json
    import os
    import subprocess
    import sys
    import tempfile
    fd, out = tempfile.mkstemp(prefix='verif-contracts-', suffix='.json')
    os.close(fd)
    try:
        env = dict(os.environ, VERIF_CONTRACT_REPORT=out)
        p = subprocess.run([sys.executable, '-m', 'pytest', '-q', '-p', 'no:cacheprovider', '-p', 'vlib.pytest_contracts',
                            os.path.join(core.REPO, 'tests')], cwd=core.REPO, env=env, capture_output=True, text=True,
                           timeout=600)
        rep = json.load(open(out)) if os.path.getsize(out) else None
    except Exception as x:
        res.notes['repo_tests_under_contracts'] = f'not run: {x!r}'
        return
    finally:
        os.unlink(out)
    if rep is None:
        res.notes['repo_tests_under_contracts'] = 'no report: ' + p.stdout[-300:]
        return
    res.count('repo_test_window_invariant_evaluations', rep['window_invariant_evaluations'])
    res.count('repo_test_from_kd_buf_contract_evaluations', rep['from_kd_buf_evaluations'])
    res.count('repo_test_callstack_invariant_evaluations', rep['callstack_invariant_evaluations'])
    res.notes['repo_tests_under_contracts'] = f'pytest exit {rep["exitstatus"]}'
    for f in rep['window_invariant_failures']:
        res.violation('c04-window-invariant', f'while the repository\'s own tests ran: {f}')
    for k, w in rep['from_kd_buf_failures']:
        res.violation(k, f'while the repository\'s own tests ran: {w}')
    for f in rep['callstack_invariant_failures']:
        res.violation('c15-list-invariant', f'while the repository\'s own tests ran: {f}')


def run(ctx):
    install_invariant()
    res = core.Result()
    rng = ctx.rng
    if ctx.shard == 0:
        repo_tests_under_contracts(res)
    small_scope(res, ctx, rng)
    random_histories(res, ctx, rng)
    long_windows(res, ctx, rng)
    huge_windows(res, ctx, rng)
    foreign_naming_pairs(res, ctx, rng)
    reassigned_tables(res, ctx, rng)
    named_while_open(res, ctx, rng)
    front_end_sequences(res, ctx, rng)
    res.count('invariant_evaluations', InvariantLog.evaluations)
    res.notes['invariant_backend'] = 'icontract.invariant on TracesParser' if monitors.HAVE_ICONTRACT else 'absent'
    for f in InvariantLog.failures:
        res.violation('c04-window-invariant', f'class invariant on TracesParser: {f}')
    if ctx.shard == 0:
        r = core.Ctx('C04', ctx.tier, ctx.seed).rng
        h = [mk_event(r, 1000 + 7 * i, c, q, t) for i, (t, c, q) in enumerate(
            [(1, 'BSC_read', 1), (1, 'TRACE_DATA_EXEC', 0), (2, 'BSC_read', 1), (1, 'MACH_vm_page_release', 2),
             (1, 'BSC_read', 2), (2, 'BSC_read', 2)])]
        res.sample({'history': [ev.ev_brief(e) for e in h],
                    'expected_windows': 'END@4 -> [0,4] (trace-domain record 1 and stray END 3 excluded); END@5 -> [2,5]'})
    res.assumptions += ['trace-domain = the ten TRACE_DATA_*/TRACE_STRING_* names with decoders',
                        'words are in-domain so that the real decoders are total on the windows they receive']
    for cls in ('class_unmatched_end', 'class_reopened_start', 'class_nested', 'class_crossing',
                'class_same_code_two_threads', 'class_both_domains_open', 'class_qualifier_all', 'windows_checked',
                'singles_checked', 'long_window_histories', 'huge_windows', 'foreign_naming_pair_histories', 'histories_after_a_table_change',
                'histories_with_a_checkpoint_transfer_by_pickle', 'histories_with_a_checkpoint_transfer_by_deepcopy',
                'windows_with_a_table_edit_inside'):
        res.require(cls)
    if monitors.HAVE_ICONTRACT:
        res.require('invariant_evaluations')
    return res


def replay(case, ctx):
    install_invariant()
    res = core.Result()
    check_history(res, [ev.ev_from_case(c) for c in case['events']], 'replay')
    for f in InvariantLog.failures:
        res.violation('c04-window-invariant', f)
    return res
