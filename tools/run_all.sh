#!/bin/bash
# Runs every claimed check at the given tier and prints one line per check.
# usage: tools/run_all.sh quick|thorough [seed]
cd "$(dirname "$0")/.."
tier=${1:-quick}; seed=${2:-0}
for p in C01 C02 C03 C04 C05 C06 C07 C08 C09 C10 C11 C12 C13 C14 C15 C16 C17 C18 C19 C20; do
  s=$(date +%s)
  out=$(VERIF_SEED=$seed ./check $p $tier 2>&1); rc=$?
  echo "$p rc=$rc $(( $(date +%s) - s ))s $(echo "$out" | grep -E '^(OK|VIOLATION|INCONCLUSIVE|  mechanism)' | head -4 | tr '\n' ' ' | cut -c1-300)"
done
