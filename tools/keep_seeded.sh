#!/bin/bash
# usage: tools/keep_seeded.sh <prop lower, e.g. c04> <seed-id> [worktree]
# Confirms a sub-agent's change in a FRESH scratch worktree (tests pass with it, demo fails with it and passes
# without it) and stores it under /verif/seeded/<seed-id>/.
set -u
p=$1; id=$2; wt=${3:-/tmp/wt-$p}
out=/verif/seeded/$id
mkdir -p $out
git -C $wt diff -- pykdebugparser > $out/patch.diff
cp $wt/demo_$p.py $out/demo.py
[ -f $wt/NOTES_$p.md ] && cp $wt/NOTES_$p.md $out/NOTES.md
fresh=$(mktemp -d /tmp/confirm-XXXX)
git -C /repo worktree add -q --detach $fresh/wt HEAD
cp $out/demo.py $fresh/wt/demo_$p.py
cd $fresh/wt
PYTHONPATH=$fresh/wt /venv/bin/python demo_$p.py > $fresh/orig.out 2>&1; rc_orig=$?
git apply $out/patch.diff; rc_apply=$?
PYTHONPATH=$fresh/wt /venv/bin/python -m pytest -q -p no:cacheprovider tests > $fresh/tests.out 2>&1; rc_tests=$?
PYTHONPATH=$fresh/wt /venv/bin/python demo_$p.py > $fresh/mut.out 2>&1; rc_mut=$?
echo "$id: apply=$rc_apply tests=$rc_tests ($(tail -1 $fresh/tests.out)) demo_orig=$rc_orig ($(tail -1 $fresh/orig.out | cut -c1-60)) demo_mutant=$rc_mut ($(tail -1 $fresh/mut.out | cut -c1-160))"
sed "s#$fresh/wt#<worktree>#g" $fresh/mut.out | tail -3 > $out/demo_output_with_change.txt
cd /
git -C /repo worktree remove --force $fresh/wt
rm -rf $fresh
echo "{\"rc\": {\"apply\": $rc_apply, \"tests_with_change\": $rc_tests, \"demo_without_change\": $rc_orig, \"demo_with_change\": $rc_mut}}" > $out/.confirm.json
