#!/usr/bin/env python3
"""Regenerates MANIFEST.json from the table below (one place to keep levels/notes/techniques current)."""
import json
import os

HERE = os.path.dirname(os.path.dirname(os.path.abspath(__file__)))

CHECKS = {
    'C01': dict(
        category='exploration', design_ref='DESIGN.md section 4, C01',
        text='Runtime monitoring: the real from_kd_buf runs under a post-condition contract and a lock-step '
             'reference decode on a structured sample of the 2^512 inputs (every bit position x many bases, full '
             'product of field extremes, random records); held-on-what-was-observed, not a proof.',
        note='Trusted: vlib/wire.py reference decode (int.from_bytes on literal slices), CPython struct. 2^512 is '
             'sampled with structure, not enumerated.',
        technique='icontract post-condition on the real decoder + lock-step reference model + bit-flip locality oracle'),
    'C02': dict(
        category='exploration', design_ref='DESIGN.md section 4, C02',
        text='Runtime monitoring: generated v2 files (independent builder = ground-truth model) are parsed by the real '
             'container parser through both entry points, in histories that re-use one parser object / one pair of '
             'dicts and alternate v2 and v3 files; the observed event stream and tables are compared with the model, '
             'accepting any valid decomposition of genuinely ambiguous files. Held-on-observed-executions.',
        note='Trusted: vlib/wire.py v2 builder (layout restated from the declarative struct), construct, plistlib. '
             'Open known finding: greedy zero padding eats leading zero bytes of the first record '
             '(known_findings.json).',
        technique='generated-file workload + reference-model oracle over the observed stream and tables, parse '
                  'histories on shared state, from_kd_buf contract attached'),
    'C03': dict(
        category='exploration', design_ref='DESIGN.md section 4, C03',
        text='Runtime monitoring: generated v3 files (chunkings, hostile fillers with partial marker prefixes, blocks '
             'in random order/multiplicity, padded and unpadded last block, log records) parsed by the real parser; '
             'stream order, per-event equality, chunking metamorphism, metadata attributes, log decoding through the '
             'inverted string index and the resulting tables are compared with the generator model.',
        note='Trusted: vlib/wire.py V3Spec builder and vlib/logs.py reference log decoder; fillers are sanitised so '
             'that files are unambiguous; the v3 layout is the one the parser\'s declarative structs define (no real '
             'ktrace file available offline).',
        technique='generated-file workload + reference-model oracle, chunking metamorphism, from_kd_buf contract'),
    'C07': dict(
        category='exploration', design_ref='DESIGN.md section 4, C07',
        text='Runtime monitoring: hostile histories of individually in-domain events (every decodable code under '
             'every dropped prefix / dropped nested record / duplication; kernel-shaped templates mixed, nested and '
             'interleaved on 1-3 threads; the situation classes the statement names produced by construction) are fed '
             'to the real TracesParser (and through formatted_traces on a v2 file); any exception from feed() or '
             'str(trace) is a violation, shrunk with ddmin and keyed by decoder function + exception type. '
             'sys.monitoring shows which decoder functions were entered.',
        note='Trusted: vlib/domain.py (what counts as an individually well-formed event), vlib/histories.py templates. '
             'Lookup paths are chunk-safe (no UTF-8 character straddles a record) because single records are dropped.',
        technique='hostile-history workload + exception oracle at the feed/str boundary + sys.monitoring handler '
                  'coverage + ddmin witness shrinking'),
    'C06': dict(
        category='fault_enumeration', design_ref='DESIGN.md section 4, C06',
        text='Crash points are enumerated exhaustively: every byte offset 0..len of each generated v2/v3 dump is cut and '
             'run through the event, trace and formatted pipelines (and, on a stride, the click CLI with -c limits) '
             'under an instrumented reader with a linear read budget and a sys.monitoring step clock; the output '
             'before the stop must be a prefix of the full output, no event may come from a partial record, and '
             'lines(c) == lines(all)[:c]. The dumps themselves are sampled.',
        note='Termination is decided as bounded progress (20*len+10000 read calls, 2000*len+10^6 interpreter lines per '
             'cut). Trusted: vlib/wire.py builders, click CliRunner. v2 first records start with a non-zero byte '
             '(open finding F02).',
        technique='exhaustive truncation-offset fault injection + CountingReader/StepClock budgets + prefix oracle '
                  'against the full-file run'),
    'C08': dict(
        category='exploration', design_ref='DESIGN.md section 4, C08',
        text='Runtime monitoring: texts of every byte length 0..184 / 0..200 / 0..63 (ASCII and UTF-8 with a character '
             'straddling each record boundary) in the kernel\'s own chunking are fed to the real TracesParser '
             'stand-alone, inside every discovered path-taking syscall, with unrelated same-thread records between the '
             'chunks and with 1..6 lookups per window; the traces recorded at the feed boundary must contain exactly '
             'one lookup/string/name trace per item with exactly the text (and first vnode id), none for a lone '
             'continuation record, the tables must hold the text and enclosing calls must show the paths in order.',
        note='Trusted: vlib/wire.py chunkers (restated from kdebug_lookup_gen_events / kernel_debug_string*). Texts '
             'contain no NUL or double quote. Path-taking decoders and their arity are discovered by observation.',
        technique='boundary-complete text workload in kernel chunking + offline checker over the recorded trace '
                  'history (exactly-once, exact text, no-continuation-trace, table state)'),
    'C04': dict(
        category='exploration', design_ref='DESIGN.md section 4, C04',
        text='Runtime monitoring with an offline history checker: every call of the real TracesParser.feed is recorded '
             'at the client boundary (event, returned trace, state snapshots around ENDs); the checker derives from '
             'the history alone which window each END must deliver (optional stray ENDs accepted either way), that '
             'stray ENDs change nothing and that singles yield single-event traces; an icontract class invariant '
             'asserts the structural window invariant on the live tables after every public call. Exhaustive small '
             'scope (all histories up to length 4/5 over 2 threads x 2 codes x 4 qualifiers, several code pairs) plus '
             'stratified random histories with real decoders.',
        note='Trusted: the 15-line history model in props/c04.py, the list of the ten trace-domain names, in-domain '
             'words (vlib/domain.py). Situation classes are counted; a class never observed makes the run inconclusive.',
        technique='feed recorder + offline trace-specification checker over recorded histories + icontract class '
                  'invariant; exhaustive small scope and stratified random histories'),
    'C05': dict(
        category='exploration', design_ref='DESIGN.md section 4, C05',
        text='Schedules are input interleavings (the merge order of per-CPU buffers), so they are driven '
             'deterministically: every order-preserving interleaving of small per-thread program sets (<= 3000), '
             'adversarial lock-step merges that split every DATA/STRING pair, and random merges of larger sets. The '
             'traces the real parser emits per thread (type, text, event list) and the process names it learns are '
             'compared with the baseline of each program run alone.',
        note='Keys of the tables that are shared by design (string ids, pids, argument tids) are disjoint across '
             'threads - the statement\'s carve-out made concrete. Trusted: vlib/histories.py templates.',
        technique='deterministic enumeration of interleavings + per-thread differential oracle against single-thread '
                  'baselines recorded at the feed boundary'),
    'C09': dict(
        category='exploration', design_ref='DESIGN.md section 4, C09',
        text='Differential taint at the rendering boundary: each of the ~400 BSD/Mach-trap decoders of call shape is run '
             'through the real pipeline on sentinel START words that are pairwise distinct under every accepted '
             'rendering; numeric parameter tokens must be renderings of the word at their own position, react to no '
             'other START word, no END word and no unrelated nested record; quoted parameters must be lookups; the '
             'call part must be invariant under END records. No per-decoder expectation table is used.',
        note='Trusted: vlib/render.py tokenizer, vlib/domain.py (enum-valued words stay in their enum). Accepted '
             'renderings: signed/unsigned low 8/16/32/64 bits in decimal or hex.',
        technique='differential taint oracle over rendered tokens (single-word replacement, END/nesting invariance)'),
    'C10': dict(
        category='exploration', design_ref='DESIGN.md section 4, C10',
        text='Differential observation of the result part: for every decodable BSD syscall the END record alone is '
             'varied (error word 0, every Darwin errno, unknown, aliased and huge codes; arbitrary return words), then '
             'the START record and unrelated nested records alone. Error => exactly "errno: NAME(e)"/"errno: e" after '
             'the unchanged call part and nothing else; success => no errno and only renderings of END words; '
             'decoders whose text never reacts to the error word must be among the calls the statement excludes.',
        note='Trusted: vlib/render.py, the declared exclusion list (compared with the observed one and printed in the '
             'evidence). Names of error codes are C18\'s business; C10 checks the number.',
        technique='differential result-part oracle (vary END only / START only / nesting only) on the real pipeline'),
    'C17': dict(
        category='exploration', design_ref='DESIGN.md section 4, C17',
        text='Exhaustive over the finite tables: every registered decoder name must occur in the bundled code table '
             '(own parser) under an id with clear qualifier bits, families must be disjoint, every X_nocancel needs its '
             'base X bound to the same function. Dynamically, an event with the bundled id is fed for each of the 469 '
             'names and a sys.monitoring PY_START monitor must see the registered function entered; twin renderings are '
             'compared over many in-domain START/END tuples and lookups.',
        note='Trusted: own trace.codes parser (vlib/ev.py), sys.monitoring. exhaustive=true refers to the tables, the '
             'twin argument tuples are sampled.',
        technique='exhaustive table audit + sys.monitoring reachability observation + twin differential rendering'),
    'C11': dict(
        category='exploration', design_ref='DESIGN.md section 4, C11',
        text='(1) every flag enum of the handler modules is audited name->value against an independent Darwin reference; '
             '(2) the real helper functions are driven exhaustively over all subsets of the declared bits x all values '
             'of the multi-bit fields (open flags, file modes, access, VM protections, AST, thread/sampler/callstack '
             'state, dlopen modes; 2^16 per family in quick, up to 2^22 in thorough) plus undeclared bits, with a '
             '"names shown <=> bits set" oracle; (3) the same words go through the real pipeline of every decoder that '
             'shows them and the names are parsed back from str(trace); (4) ioctl request words must unpack as the '
             'exact inverse of _IOC.',
        note='Trusted base: vlib/darwin_ref.py (XNU header constants typed from memory; names it lacks are listed as '
             'unchecked in the evidence). Access mode 3 (= the O_ACCMODE mask) is not a mode.',
        technique='exhaustive subset enumeration through the real helpers/pipeline + bits<->names oracle + reference '
                  'audit of enum values + _IOC inverse oracle'),
    'C18': dict(
        category='exploration', design_ref='DESIGN.md section 4, C18',
        text='Environment fault injection: the same rendering workload runs in subprocesses under three hosts (real '
             'Linux interpreter, Darwin-shaped and scrambled errno/signal/socket tables, os.strerror, sys.platform, TZ, '
             'locale substituted before the repository is imported). Outputs must be byte-identical across hosts and '
             'the names must equal the Darwin reference (every error code 0..134+, every signal, every Darwin address '
             'family x socket type, option levels, a whole dump through the front-end, log timestamps).',
        note='Other platforms are modelled by table substitution inside one CPython; trusted base vlib/darwin_ref.py.',
        technique='host-substitution differential (subprocess per host) + reference-name oracle'),
    'C15': dict(
        category='exploration', design_ref='DESIGN.md section 4, C15',
        text='Runtime monitoring with a lock-step reference model: generated streams of image announcements '
             '(stand-alone and inside launch windows; duplicate, adjacent, equal addresses) interleaved with user-stack '
             'samples go through the real TracesParser + CallstacksParser and through PyKdebugParser.callstacks (twice '
             'on one object); one callstack per stack sample, START stamp, first-N frames and per-frame attribution '
             '(greatest announced address <= frame, first identity kept, offset >= 0) are compared with the model; an '
             'icontract class invariant checks the sorted parallel lists; announcement order is permuted.',
        note='Images announced while a sample/launch window is open are accepted either way. Trusted: 20-line model in '
             'props/c15.py.',
        technique='reference-model monitor in lock-step + icontract class invariant + permutation metamorphism + '
                  'repeated-request history'),
    'C20': dict(
        category='exploration', design_ref='DESIGN.md section 4, C20',
        text='Runtime monitoring: page-fault windows (result zero/non-zero x 11 fault types x 0..3 nested real-fault '
             'records of the four kinds in every order), launch windows (0..8 map/shared-cache records with address '
             'ties) and sampler windows (all combinations of the two flags x presence of thread-data/header/data '
             'records), each mixed with unrelated same-thread records, are fed to the real parser and the fields of '
             'the composite traces are compared with a reference computed from the window.',
        note='Either answer is accepted when the first nested real-fault record is of the undecoded kind; with a '
             'non-zero result pid/protection may be absent.',
        technique='generated-window workload + field-level reference oracle on the emitted composite traces'),
    'C16': dict(
        category='exploration', design_ref='DESIGN.md section 4, C16',
        text='Runtime monitoring with a lock-step reference decoder written from the field table: mandatory keys + {empty, '
             'every single, every pair, all 31, random} subsets of the optional keys, decomposed messages from a grammar '
             '(every subset of the argument/placeholder inner keys), every defined trace-identifier word (namespaces x '
             'types x 64 flag-byte combinations x flag values incl. zero and combinations) go through the real '
             'from_raw_log_event and, end to end, through a v3 file; decoding must not raise and every field '
             '(values, symbolic names, defaults) must equal the reference; trace identifiers must re-pack.',
        note='Trusted: vlib/logs.py key->field table, defaults and name tables. Values in range (sec < 2^31).',
        technique='structured subset enumeration through the real decoder + reference-decoder oracle + repack '
                  '(inverse) oracle'),
    'C12': dict(
        category='exploration', design_ref='DESIGN.md section 4, C12',
        text='Runtime monitoring: generated v2/v3 dumps (event ids from small class/subclass pools, thread ids incl. 0) are '
             'listed by the real front-end unfiltered and under many tid/class/subclass configurations (lists and '
             'tuples, API and click CLI); the filtered listing must equal, as a sequence, a list comprehension over the '
             'unfiltered run with own shift literals; logs and events must stay in their own listings; log thread/'
             'process filters are checked the same way.',
        note='Trusted: vlib/wire.py builders, 6-line filter model in props/c12.py.',
        technique='configuration sweep + exact-subsequence model oracle over the observed listings (API and CLI)'),
    'C13': dict(
        category='exploration', design_ref='DESIGN.md section 4, C13',
        text='Runtime monitoring over request histories: dumps with scenario content are decoded unfiltered and under '
             'tid/process/class/BSD-subclass configurations in histories of 2-4 repeated traces/formatted_traces/'
             'callstacks requests on one parser object (also with another file in between); each filtered output must '
             'equal the unfiltered output restricted to traces whose first event satisfies the user\'s filter, helper '
             'classes shown only on request, request i == request 1, and the caller\'s filter attributes unchanged.',
        note='Process filters run on static-map dumps; strings/lookups are emitted by the consuming thread; records of '
             'non-requested classes that update shared tables carry the pid the map already declares.',
        technique='request-history workload + commutation oracle (filter o decode == decode o filter) + state-residue '
                  'snapshot comparison'),
    'C19': dict(
        category='exploration', design_ref='DESIGN.md section 4, C19',
        text='(1) generated table texts (prefix/case/leading-zero variants, duplicates, comments, CRLF) through the real '
             'from_trace_codes_text versus an own reference parse; (2) dumps listed and decoded by the real front-end '
             'under the bundled table, a reduced table (removed ids must list as bare hex and never decode) and an '
             'injective re-assignment of ids with the events re-mapped (trace texts and callstacks must equal those '
             'under the bundled table).',
        note='Names without whitespace, comments without line terminators, no empty lines; real-fault ids (hard-coded in '
             'the page-fault decoder) are not re-assigned.',
        technique='generated-table differential against a reference parser + table-substitution metamorphism on the real '
                  'front-end'),
    'C14': dict(
        category='exploration', design_ref='DESIGN.md section 4, C14',
        text='Runtime monitoring: generated dumps (thread maps with duplicate tids, new-thread/exec pairs, terminate-pid '
             'and sampler thread-data records that re-map stream threads, a thread re-mapped after it emitted a trace, '
             'an undeclared thread) are formatted by the real front-end under all 2^6 event-line and 2^3 trace/'
             'callstack-line column configurations, raw and wall-clock timestamps, colour on/off. Oracles: composition '
             '(each line == concatenation of separately measured columns in the fixed order + body), colour '
             '(ANSI-stripped == plain) and a table model replaying the map-updating records up to the trigger event.',
        note='Texts printable without ESC/line terminators; inclusive and exclusive readings accepted for a record that '
             're-maps tables at its own trigger; event lines use the thread map only.',
        technique='exhaustive column-configuration sweep + composition/colour oracles + table reference model replayed '
                  'in lock-step with the stream'),
}

PENDING_REASON = 'check not yet built in this session (design in DESIGN.md section 4); not claimed until it exists'


def main():
    props = [json.loads(l) for l in open(os.path.join(HERE, 'properties.jsonl'))]
    checks = []
    not_applicable = []
    for p in props:
        pid = p['id']
        c = CHECKS.get(pid)
        if c is None:
            not_applicable.append({'property_id': pid, 'reason': PENDING_REASON})
            continue
        checks.append({
            'property_id': pid,
            'quick_cmd': f'./check {pid} quick',
            'thorough_cmd': f'./check {pid} thorough',
            'evidence_file': f'/verif/evidence/{pid}.json',
            'replay_cmd_template': f'./check {pid} --replay {{path}}',
            'engine': 'runtime-monitors',
            'level_claimed': {'category': c['category'], 'text': c['text'], 'design_ref': c['design_ref']},
            'level_note': c['note'],
            'technique': c['technique'],
        })
    manifest = {
        'version': 1,
        'setup_cmd': './setup.sh',
        'hooks': {
            'guard': 'PYKDEBUGPARSER_VERIF',
            'enable': 'no source hooks are needed: monitors wrap module attributes and parser state from the harness '
                      '(./check exports PYKDEBUGPARSER_VERIF=1 for completeness); checks import /repo working tree '
                      'directly via PYTHONPATH, so there is no build step',
            'baseline_off_cmd': 'cd /repo && /venv/bin/python -m pytest -ra -q -p no:cacheprovider --timeout=900 '
                                '--continue-on-collection-errors',
            'source_commits': [],
            'add_only': True,
        },
        'engines': [{
            'name': 'runtime-monitors', 'path': '/verif/vlib',
            'serves_properties': [c['property_id'] for c in checks],
            'kind_free_text': 'Python harness: generated hostile workloads drive the real code while contracts, '
                              'reference models, history checkers and instrumented I/O observe every execution',
        }],
        'checks': checks,
        'not_applicable': not_applicable,
        'notes': 'Family: runtime monitoring. Exit 0 held / 1 VIOLATION / 2 INCONCLUSIVE. Known findings: '
                 '/verif/known_findings.json. See DESIGN.md.',
    }
    with open(os.path.join(HERE, 'MANIFEST.json'), 'w') as fd:
        json.dump(manifest, fd, indent=1)
        fd.write('\n')
    print(f'{len(checks)} checks, {len(not_applicable)} not claimed')


if __name__ == '__main__':
    main()
