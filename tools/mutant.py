#!/usr/bin/env python3
"""Apply a textual mutation to a scratch copy of the repository, confirm the repository's own tests still pass,
and run the given checks against the scratch copy (VERIF_REPO).  The scratch copy is removed afterwards.

usage: tools/mutant.py [--no-tests] [--tier quick] FILE OLD NEW -- PROP [PROP...]
       tools/mutant.py [--no-tests] --patch FILE.diff -- PROP [PROP...]
OLD must occur exactly once in FILE (append '@@k' to OLD to pick the k-th occurrence, 1-based).
"""
import os
import shutil
import subprocess
import sys
import tempfile

VERIF = os.path.dirname(os.path.dirname(os.path.abspath(__file__)))


def main():
    argv = sys.argv[1:]
    run_tests = True
    tier = 'quick'
    patch = None
    while argv and argv[0].startswith('--'):
        if argv[0] == '--no-tests':
            run_tests = False
            argv = argv[1:]
        elif argv[0] == '--tier':
            tier = argv[1]
            argv = argv[2:]
        elif argv[0] == '--patch':
            patch = os.path.abspath(argv[1])
            argv = argv[2:]
        else:
            break
    sep = argv.index('--')
    spec, props = argv[:sep], argv[sep + 1:]
    scratch = tempfile.mkdtemp(prefix='mut-')
    try:
        dst = os.path.join(scratch, 'repo')
        shutil.copytree('/repo', dst, ignore=shutil.ignore_patterns('.git', '__pycache__', '*.egg-info', 'gifs'))
        if patch:
            subprocess.run(['patch', '-p1', '-s', '-i', patch], cwd=dst, check=True)
        else:
            rel, old, new = spec
            if os.path.isabs(rel):
                rel = os.path.relpath(rel, '/repo')      # never touch /repo itself: the mutation goes into the scratch copy
            if rel.startswith('..'):
                print(f'MUTANT-ERROR: {rel!r} is not a file of the repository')
                return 9
            k = None
            if '@@' in old:
                old, k = old.rsplit('@@', 1)
                k = int(k)
            path = os.path.join(dst, rel)
            src = open(path).read()
            n = src.count(old)
            if n == 0 or (n != 1 and k is None):
                print(f'MUTANT-ERROR: {old!r} occurs {n} times in {rel}')
                return 9
            if k is None:
                src = src.replace(old, new)
            else:
                parts = src.split(old)
                src = old.join(parts[:k]) + new + old.join(parts[k:])
            open(path, 'w').write(src)
        env = dict(os.environ, PYTHONPATH=dst, PYTHONDONTWRITEBYTECODE='1')
        if run_tests:
            p = subprocess.run(['/venv/bin/python', '-m', 'pytest', '-q', '-x', '-p', 'no:cacheprovider', 'tests'],
                               cwd=dst, env=env, capture_output=True, text=True)
            tail = p.stdout.strip().splitlines()[-1] if p.stdout.strip() else p.stderr[-300:]
            print(f'repo tests on mutant: exit {p.returncode}: {tail}')
        worst = 0
        for prop in props:
            p = subprocess.run([os.path.join(VERIF, 'check'), prop, tier], env=dict(os.environ, VERIF_REPO=dst),
                               capture_output=True, text=True)
            lines = [l for l in p.stdout.splitlines() if l.startswith(('VIOLATION', 'OK', 'INCONCLUSIVE', '  mechanism'))]
            print(f'{prop}: exit {p.returncode} ' + ' | '.join(l.replace(VERIF, '') for l in lines[:6]))
            if p.returncode not in (0, 1, 2):
                print(p.stdout[-800:], p.stderr[-800:])
            # replay files produced against a scratch tree are not kept
            for l in p.stdout.splitlines():
                if l.startswith('VIOLATION') and 'replay=' in l:
                    rp = l.split('replay=')[1].strip()
                    if os.path.exists(rp):
                        os.unlink(rp)
            worst = max(worst, p.returncode)
        return 0
    finally:
        shutil.rmtree(scratch, ignore_errors=True)


if __name__ == '__main__':
    sys.exit(main())
