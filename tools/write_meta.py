#!/usr/bin/env python3
"""usage: tools/write_meta.py <round-label> <seed-id> <property> <needs_to_manifest...>
Writes seeded/<seed-id>/meta.json from the .confirm.json left by tools/keep_seeded.sh."""
import json, sys
label, id_, prop = sys.argv[1:4]
need = ' '.join(sys.argv[4:])
c = json.load(open(f'/verif/seeded/{id_}/.confirm.json'))['rc']
json.dump({'id': id_, 'property': prop,
           'source': f'independent sub-agent ({label}) given only the property text and a scratch worktree of /repo',
           'needs_to_manifest': need,
           'confirmed_in_fresh_worktree': {'patch_applies': c['apply'] == 0, 'repo_tests_pass_with_change': c['tests_with_change'] == 0,
                                           'demo_passes_without_change': c['demo_without_change'] == 0,
                                           'demo_fails_with_change': c['demo_with_change'] != 0},
           'what_i_ran': 'tools/keep_seeded.sh; tools/run_seeded.py'}, open(f'/verif/seeded/{id_}/meta.json', 'w'), indent=1)
