#!/bin/bash
# Offline setup: put icontract + deal beside the repository's interpreter (git-ignored .deps).
set -e
cd "$(dirname "$0")"
if [ ! -d .deps/icontract ]; then
  PIP_NO_INDEX=1 /venv/bin/pip install --quiet --no-index --find-links /opt/veriftools/wheels \
      --target .deps icontract deal >/dev/null 2>&1 || echo "setup: icontract/deal not installable; built-in contract wrapper will be used"
fi
mkdir -p evidence replays
echo "setup ok"
